/-
  C14 for the TRANSLATED SOURCE (see Props/C13T.lean for the idea): the inactivity-deadline and charge bookkeeping of the
  mapping engine — mapping_reset_inactive_timeout, mapping_check_inactive_timeout, mapping_on_charge,
  mapping_check_charge_timeout, mapping_reset_charge — as regenerated from lltdAutomata.c by tools/c2lean.py.  No Mathlib.
-/
import LLTD.Props.C14
import LLTD.Lemmas.TranslatedEq
import LLTD.Lemmas.TranslatedTick

namespace LLTD.C14T
open LLTD LLTD.Spec LLTD.TEq

/-- mapping_reset_inactive_timeout as compiled from the C text: the deadline is 30 s from now -/
theorem deadline_translated (e : T.Env) (m : T.mapping_state) (he : ClockOk e) :
    holdsC14Deadline e.nowS (mapOfC (T.mapping_reset_inactive_timeout e m).mstate) = true := by
  rw [mapping_reset_inactive_timeout_eq e m he]
  exact C14.deadline (mapOfC m) e.nowS

/-- … and leaves the charge counter and the charge deadline alone -/
theorem deadline_frame_translated (e : T.Env) (m : T.mapping_state) (he : ClockOk e) :
    (T.mapping_reset_inactive_timeout e m).mstate.ctc = m.ctc ∧
    (T.mapping_reset_inactive_timeout e m).mstate.charge_timeout_ts = m.charge_timeout_ts ∧
    (T.mapping_reset_inactive_timeout e m).mstate.inactive_timeout_ts = e.nowS + 30 := by
  have h := mapping_reset_inactive_timeout_eq e m he
  simp only [mapOfC, mapResetInactive, MapState.mk.injEq] at h
  exact ⟨h.1, h.2.1, h.2.2⟩

/-- mapping_check_inactive_timeout as compiled: true exactly when an armed deadline has passed; it changes nothing -/
theorem check_inactive_translated (e : T.Env) (m : T.mapping_state) :
    ((T.mapping_check_inactive_timeout e m).ret = true ↔ (m.inactive_timeout_ts ≠ 0 ∧ e.nowS ≥ m.inactive_timeout_ts)) ∧
    (T.mapping_check_inactive_timeout e m).mstate = m := by
  have h := mapping_check_inactive_timeout_eq e m
  refine ⟨?_, h.1⟩
  rw [h.2]; simp [mapCheckInactive, mapOfC]

/-- the charge time-out as compiled never touches the inactivity deadline (seeded change C14_f / C12_n: a charge
    time-out that disarms the 30 s deadline) -/
theorem charge_keeps_deadline_translated (e : T.Env) (m : T.mapping_state) (he : ClockOk e) :
    (T.mapping_check_charge_timeout e m).mstate.inactive_timeout_ts = m.inactive_timeout_ts ∧
    (T.mapping_on_charge e m).mstate.inactive_timeout_ts = m.inactive_timeout_ts ∧
    (T.mapping_reset_charge e m).mstate.inactive_timeout_ts = m.inactive_timeout_ts := by
  have h1 := (mapping_check_charge_timeout_eq e m).1
  have h2 := mapping_on_charge_eq e m he
  have h3 := mapping_reset_charge_eq e m
  refine ⟨?_, ?_, ?_⟩
  · have : (mapOfC (T.mapping_check_charge_timeout e m).mstate).inactTs = (mapCheckCharge (mapOfC m) e.nowS).1.inactTs := by rw [h1]
    simp only [mapOfC] at this
    rw [this]; unfold mapCheckCharge; split <;> (try split) <;> rfl
  · have : (mapOfC (T.mapping_on_charge e m).mstate).inactTs = (mapOnCharge (mapOfC m) e.nowS).inactTs := by rw [h2]
    simpa [mapOfC, mapOnCharge] using this
  · have : (mapOfC (T.mapping_reset_charge e m).mstate).inactTs = (mapResetCharge (mapOfC m)).inactTs := by rw [h3]
    simpa [mapOfC, mapResetCharge] using this

/-- switch_state_mapping AS COMPILED FROM THE C TEXT (table walk, per-state time-out pre-emption, the self-call) follows
    the property's state machine: for every automaton record carrying the tables `init_automata_mapping` builds, every
    state of the machine, every integer input and every clock reading `holdsC14Step` holds of what the translated function
    leaves behind, the recursion ends within two levels and the tables are left alone -/
theorem step_translated (e : T.Env) (hnow : e.nowS < u64) (a : T.automata) (inp : Int) (hok : AutOk a) (hm : IsMapping a)
    (hs : a.current_state < 3) :
    holdsC14Step (timeoutOf X.mappingTimeouts a.current_state) (fsmOfC a) (fsmOfC (T.switch_state_mapping 2 e a inp).autom) inp e.nowS = true ∧
    (T.switch_state_mapping 2 e a inp).diverged = false ∧ sameTables a (T.switch_state_mapping 2 e a inp).autom := by
  obtain ⟨h1, h2, h3⟩ := switch_state_mapping_eq e hnow a inp hok hm
  refine ⟨?_, h2, h3⟩
  rw [h1]
  exact C14.step (fsmOfC a) hs inp e.nowS hnow

/-- every input other than Discover / Emit / Reset / time-out / emission-complete leaves the translated function's state
    where it was (within the time-out) -/
theorem ignore_translated (e : T.Env) (hnow : e.nowS < u64) (a : T.automata) (inp : Int) (hok : AutOk a) (hm : IsMapping a)
    (hs : a.current_state < 3) (hi : inp ≠ 0 ∧ inp ≠ 2 ∧ inp ≠ 8 ∧ inp ≠ -1 ∧ inp ≠ -3)
    (hw : timeoutOf X.mappingTimeouts a.current_state = 0 ∨ diff64 e.nowS a.last_ts ≤ timeoutOf X.mappingTimeouts a.current_state) :
    (T.switch_state_mapping 2 e a inp).autom.current_state = a.current_state ∧
    (T.switch_state_mapping 2 e a inp).autom.last_ts = e.nowS := by
  obtain ⟨h1, _, _⟩ := switch_state_mapping_eq e hnow a inp hok hm
  have hst := step_translated e hnow a inp hok hm hs
  have hh := hst.1
  unfold holdsC14Step at hh
  have hw' : timeoutOf X.mappingTimeouts a.current_state = 0 ∨ diff64 e.nowS (fsmOfC a).lastTs ≤ timeoutOf X.mappingTimeouts a.current_state := hw
  simp only [if_pos hw', Bool.and_eq_true, decide_eq_true_eq] at hh
  refine ⟨?_, hh.1⟩
  have : (fsmOfC (T.switch_state_mapping 2 e a inp).autom).state = mapSpec (fsmOfC a).state inp := hh.2
  rw [C14.ignore (fsmOfC a).state inp hi] at this
  exact this

/-- C14's tick-driven clause for the translated tick: once the 30 s inactivity deadline has passed, the tick (as compiled from the C
    text) leaves the mapping engine idle, the charge counter and both deadlines cleared and the session table empty -/
theorem tick_inactive_translated (e : T.Env) (he : EnvOk e) (m en : T.automata) (t : T.session_table) (p : T.lltd_automata_tick_port)
    (mx : T.mapping_state) (bx : T.band_state) (ltx : Nat)
    (hm : AutOk m) (him : IsMapping m) (hen : EnumOk en) (ht : TickTblOk t) (hb : BandOk bx) (hltx : ltx ≤ e.nowMs)
    (hs : m.current_state < 3) :
    let r := T.automata_tick e m en t p mx bx ltx
    holdsC14Tick mx.inactive_timeout_ts e.nowS (fsmOfC r.mapping) (mapOfC r.mapping_extra) (tableOfC r.sessions).live.length = true := by
  intro r
  obtain ⟨h1, _, _⟩ := automata_tick_eq e he m en t p mx bx ltx hm him hen ht hb hltx
  have hn : e.nowMs / 1000 < u64 := by have := he.hc.1; unfold u64 at *; omega
  obtain ⟨f', m', t', a1, a2, a3⟩ := C14.tick_inactive (fsmOfC m) hs (mapOfC mx) (some (fsmOfC en, some (bandOfC bx))) (tableOfC t) ltx .wired e.nowMs hn
  rw [h1] at a1 a2
  simp only [Option.some.injEq, Prod.mk.injEq] at a1 a2
  rw [← a1.1, ← a1.2, ← a2, ← he.hs] at a3
  exact a3

example : ClockOk { nowMs := 5000, nowS := 5 } := by refine ⟨by decide, by decide⟩
example : (T.mapping_reset_inactive_timeout { nowMs := 5000, nowS := 5 } { ctc := 3, charge_timeout_ts := 6, inactive_timeout_ts := 0 }).mstate.inactive_timeout_ts = 35 := by decide

end LLTD.C14T
