/-
  C19 — Memory use is bounded and nothing is leaked.
  The ledger of the model mirrors the verification port's (every lltd_port_malloc / free and the blocks the
  port hands out); the statements are about that ledger, for every frame, state and fault schedule.
-/
import LLTD.Lemmas.Safe

namespace LLTD.C19
open LLTD

/-- balance: whatever a handler allocates while handling a frame is released before it returns, unless it became
    part of the retained state (observation nodes, cached icon) — for every frame, state, allocator behaviour -/
theorem balance (c : Cfg) (g : Glob) (w : World) (st : St) (img : List Nat) (b bb : Nat) (hc : CfgOk c)
    (hl : 36 ≤ img.length) (h : Accounted w st b bb) :
    Accounted (parseFrameSt c g w st img).w (parseFrameSt c g w st img).st b bb :=
  parseFrameSt_ledger c g w st img b bb hc hl h

/-- the retained state is bounded by a constant: at most 1024 observation nodes and one icon -/
theorem retained_bound (st : St) (hi : St.Inv st) : retained st ≤ 1025 := by
  unfold retained iconBlocks
  have := hi.cap
  split <;> omega

/-- the bound does not grow with the history: it holds after every frame of every history -/
def runSt (c : Cfg) (g : Glob) : World × St → List (List Nat) → World × St
  | s, [] => s
  | (w, st), img :: rest => runSt c g ((parseFrameSt c g w st img).w, (parseFrameSt c g w st img).st) rest

theorem history_bound (c : Cfg) (g : Glob) (hc : CfgOk c) (imgs : List (List Nat)) (himgs : ∀ img ∈ imgs, ImgOk img)
    (w : World) (st : St) (b bb : Nat) (hi : St.Inv st) (ha : Accounted w st b bb) :
    St.Inv (runSt c g (w, st) imgs).2 ∧ Accounted (runSt c g (w, st) imgs).1 (runSt c g (w, st) imgs).2 b bb ∧
    (runSt c g (w, st) imgs).1.live ≤ b + 1025 := by
  induction imgs generalizing w st with
  | nil =>
    refine ⟨hi, ha, ?_⟩
    have := retained_bound st hi
    simp only [runSt]; rw [ha.1]; omega
  | cons img rest ih =>
    have him := himgs img (by simp)
    simp only [runSt]
    exact ih (fun i hi' => himgs i (by simp [hi'])) _ _ (parseFrameSt_inv c g w st img hi him)
      (balance c g w st img b bb hc him.len ha)

/-- after a topology Reset nothing remains allocated except what the ledger held besides this interface's retained
    state (the constant per-interface record) -/
theorem reset_frees_all (c : Cfg) (g : Glob) (w : World) (st : St) (img : List Nat) (b bb : Nat)
    (htos : fTos img = 0) (hop : fOpcode img = 8) (h : Accounted w st b bb) :
    (parseFrameSt c g w st img).w.live = b ∧ (parseFrameSt c g w st img).w.bytes = bb := by
  have hr := reset_ledger w st b bb h
  have e : parseFrameSt c g w st img = { st := resetSt st, w := resetWorld w st, fx := [] } := by
    simp [parseFrameSt, htos, hop]
  rw [e]
  unfold Accounted retained retainedBytes iconBlocks iconBytes resetSt at hr
  simpa using hr

/-- the record created for a new interface context is the only block: the fresh state retains nothing -/
theorem fresh_retains_nothing : retained {} = 0 ∧ retainedBytes {} = 0 := by decide

/-- non-vacuity: a state with two observations and a cached icon, accounted against a ledger of 4 blocks -/
example : Accounted { live := 4, bytes := 64 + 2 * 28 + 3 }
    { sees := [⟨1, [1,1,1,1,1,1], [2,2,2,2,2,2], [3,3,3,3,3,3]⟩, ⟨0, [1,1,1,1,1,1], [4,4,4,4,4,4], [3,3,3,3,3,3]⟩], count := 2, icon := some [7, 8, 9] }
    1 64 := ⟨by decide, by decide⟩

end LLTD.C19
