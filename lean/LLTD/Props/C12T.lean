/-
  C12 for the TRANSLATED SOURCE: `automata_tick` as regenerated from lltdAutomata.c by tools/c2lean.py (all objects present, the port
  wired the way darwin-main.c wires it) - through `TEq.automata_tick_eq` the model-level clauses of Props/C12.lean become statements
  about the C text: at most one callback invocation per tick, only at least a second after the previous one, the time stamp updated
  to now, and only while the session table (after the inactivity clear and the expiry sweep of the same tick) holds a live session
  that is not complete.  No Mathlib.
-/
import LLTD.Props.C12
import LLTD.Lemmas.TranslatedTick
import LLTD.Props.C16T

namespace LLTD.C12T
open LLTD LLTD.Spec LLTD.TEq

/-- ONE TICK OF THE TRANSLATED FUNCTION: either the `send_hello` callback is not invoked and the port's time stamp is untouched, or it
    is invoked exactly once, the time stamp becomes `now` (> 0), the previous transmit was at least one second ago (or never), and
    the session table the tick leaves behind is neither empty nor all complete -/
theorem tick_hello_translated (e : T.Env) (he : EnvOk e) (m en : T.automata) (t : T.session_table) (p : T.lltd_automata_tick_port)
    (mx : T.mapping_state) (bx : T.band_state) (ltx : Nat)
    (hm : AutOk m) (him : IsMapping m) (hen : EnumOk en) (ht : TickTblOk t) (hb : BandOk bx) (hltx : ltx ≤ e.nowMs) :
    let r := T.automata_tick e m en t p mx bx ltx
    (r.port_send_hello_calls = 0 ∧ r.port_last_hello_tx_ms = ltx) ∨
    (r.port_send_hello_calls = 1 ∧ r.port_last_hello_tx_ms = e.nowMs ∧ 0 < e.nowMs ∧ (ltx = 0 ∨ ltx + 1000 ≤ e.nowMs) ∧
      (tableOfC r.sessions).isEmpty = false ∧ (tableOfC r.sessions).allComplete = false) := by
  intro r
  obtain ⟨h1, h2, _⟩ := automata_tick_eq e he m en t p mx bx ltx hm him hen ht hb hltx
  have hn : e.nowMs < u64 := by have := he.hc.1; omega
  have hT := C12.tick_hello { mapping := some (fsmOfC m, some (mapOfC mx)), enum := some (fsmOfC en, some (bandOfC bx)),
                              table := some (tableOfC t), lastTx := ltx } e.nowMs hn hltx
  have hl : (tick { mapping := some (fsmOfC m, some (mapOfC mx)), enum := some (fsmOfC en, some (bandOfC bx)),
                    table := some (tableOfC t), lastTx := ltx } .wired e.nowMs).1.lastTx = r.port_last_hello_tx_ms := by rw [h1]
  have htb : (tick { mapping := some (fsmOfC m, some (mapOfC mx)), enum := some (fsmOfC en, some (bandOfC bx)),
                     table := some (tableOfC t), lastTx := ltx } .wired e.nowMs).1.table = some (tableOfC r.sessions) := by rw [h1]
  rcases hT with ⟨a1, a2⟩ | ⟨a1, a2, a3, a4, a5, a6⟩
  · left; exact ⟨by rw [h2, a1]; rfl, by rw [← hl, a2]⟩
  · right
    rw [htb] at a5 a6
    exact ⟨by rw [h2, a1]; rfl, by rw [← hl, a2], a3, a4, a5, a6⟩

/-- the table invariant of C16 survives the translated tick (inactivity clear, expiry sweep, status update) -/
theorem tick_inv_translated (e : T.Env) (he : EnvOk e) (m en : T.automata) (t : T.session_table) (p : T.lltd_automata_tick_port)
    (mx : T.mapping_state) (bx : T.band_state) (ltx : Nat)
    (hm : AutOk m) (him : IsMapping m) (hen : EnumOk en) (ht : TickTblOk t) (hb : BandOk bx) (hltx : ltx ≤ e.nowMs)
    (hinv : C16.TInv (tableOfC t)) : C16.TInv (tableOfC (T.automata_tick e m en t p mx bx ltx).sessions) := by
  obtain ⟨h1, _, _⟩ := automata_tick_eq e he m en t p mx bx ltx hm him hen ht hb hltx
  have hT := congrArg TickState.table h1
  unfold tick at hT
  simp only [] at hT
  unfold tickMapStage at hT
  by_cases hin : mapCheckInactive (mapOfC mx) (e.nowMs / 1000) = true
  · simp only [hin, if_true, Option.map_some, Option.some.injEq] at hT
    rw [← hT]
    exact (C16.expire_inv_spec _ _ C16.create_inv).1
  · have hin' : mapCheckInactive (mapOfC mx) (e.nowMs / 1000) = false := by simpa using hin
    simp only [hin', Bool.false_eq_true, if_false, Option.map_some, Option.some.injEq] at hT
    rw [← hT]
    exact (C16.expire_inv_spec _ _ hinv).1

/-- PURPOSEFUL, for the translated tick: when it invokes the callback the table it leaves behind holds a live session that is not
    complete (given the table invariant BEFORE the tick - which `C16T.reach_translated` shows every sequence of translated calls
    maintains and `tick_inv_translated` shows the tick itself preserves) -/
theorem gate_translated (e : T.Env) (he : EnvOk e) (m en : T.automata) (t : T.session_table) (p : T.lltd_automata_tick_port)
    (mx : T.mapping_state) (bx : T.band_state) (ltx : Nat)
    (hm : AutOk m) (him : IsMapping m) (hen : EnumOk en) (ht : TickTblOk t) (hb : BandOk bx) (hltx : ltx ≤ e.nowMs)
    (hinv : C16.TInv (tableOfC t))
    (hsent : (T.automata_tick e m en t p mx bx ltx).port_send_hello_calls ≠ 0) :
    ∃ s ∈ (viewOf (tableOfC (T.automata_tick e m en t p mx bx ltx).sessions)).live, s.complete = false := by
  rcases tick_hello_translated e he m en t p mx bx ltx hm him hen ht hb hltx with h | h
  · exact absurd h.1 hsent
  · exact C12.gate _ (tick_inv_translated e he m en t p mx bx ltx hm him hen ht hb hltx hinv) h.2.2.2.2.1 h.2.2.2.2.2

/-- SILENT ONCE IDLE, for the translated tick -/
theorem idle_silent_translated (e : T.Env) (he : EnvOk e) (m en : T.automata) (t : T.session_table) (p : T.lltd_automata_tick_port)
    (mx : T.mapping_state) (bx : T.band_state) (ltx : Nat)
    (hm : AutOk m) (him : IsMapping m) (hen : EnumOk en) (ht : TickTblOk t) (hb : BandOk bx) (hltx : ltx ≤ e.nowMs)
    (hidle : (tableOfC (T.automata_tick e m en t p mx bx ltx).sessions).isEmpty = true) :
    (T.automata_tick e m en t p mx bx ltx).port_send_hello_calls = 0 := by
  rcases tick_hello_translated e he m en t p mx bx ltx hm him hen ht hb hltx with h | h
  · exact h.1
  · rw [hidle] at h; exact absurd h.2.2.2.2.1 (by simp)

-- non-vacuity: the record rebuilt from the extracted tables, a not-complete session, Pausing, deadline passed: the translated tick
-- invokes the callback once and stamps the port
example :
    let t := (T.session_table_add { nowMs := 0, nowS := 0 } C16T.createT [2,0,0,0,0,1] 1 1).table
    let r := T.automata_tick { nowMs := 5000, nowS := 5 } (autOfX X.mappingTable X.mappingTimeouts 0 0)
      (autOfX X.enumerationTable X.enumerationTimeouts 1 0) t {} { ctc := 0, charge_timeout_ts := 0, inactive_timeout_ts := 0 }
      { Ni := 45, r := 0, begun := false, hello_timeout_ts := 120, block_timeout_ts := 300 } 0
    r.port_send_hello_calls = 1 ∧ r.port_last_hello_tx_ms = 5000 := by
  decide +kernel

end LLTD.C12T
