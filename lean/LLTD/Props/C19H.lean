/-
  C19 — the predicate form over histories.  With the specification following the implementation's cap (dom = 1024), the
  record refines the specification state UNCONDITIONALLY (`Ref1024`), and the allocation ledger after every frame of every
  history (fault-free platform) is exactly what the specification state accounts for: the per-interface record, one node
  per observation not yet reported, and the icon cached since the last Reset — `expectedLive` / `expectedBytes`, the
  quantities `./check C19` compares with the verification port's ledger after every frame.
-/
import LLTD.Lemmas.History
import LLTD.Props.C19

namespace LLTD.C19H
open LLTD LLTD.Spec

structure Ref1024 (st : St) (s : SpecSt) : Prop where
  icon : s.iconCache = st.icon
  pend : s.pending = st.sees.map toDesc

theorem ref1024_init : Ref1024 {} {} := ⟨rfl, rfl⟩

/-- one frame, specification capacity = the implementation's cap -/
theorem ref1024_step (c : Cfg) (g : Glob) (w : World) (st : St) (img : List Nat) (s : SpecSt)
    (hc : CfgOk c) (hmac : c.failMac = false) (hw : NoFault w) (hi : St.Inv st) (him : ImgOk img) (hr : Ref1024 st s) :
    Ref1024 (parseFrameSt c g w st img).st
      (specStep c.mac 1024 g s img (reportedOf (obsOf c g img (parseFrameSt c g w st img).fx).fx)) := by
  generalize hrep : reportedOf (obsOf c g img (parseFrameSt c g w st img).fx).fx = rep
  have hown : c.ourMac = c.mac := by simp [Cfg.ourMac, hmac]
  have hS := spec_rest c.mac 1024 g s img rep him.len
  have hp := congrArg (fun x => x.1) hS
  have hic := congrArg (fun x => x.2.2) hS
  simp only [] at hp hic
  have hM := model_rest c g w st img
  have hms := congrArg (fun x => x.1) hM
  have hmi := congrArg (fun x => x.2) hM
  simp only [] at hms hmi
  refine ⟨?_, ?_⟩
  · rw [hic, hmi]
    unfold restStep
    simp only []
    by_cases hA : fTos img = 0 ∧ fOpcode img = 8
    · simp only [hA, and_self, if_true]
    · simp only [hA, if_false]
      by_cases hB : fTos img = 0 ∧ fOpcode img = 6
      · simp only [hB, and_self, if_true]; exact hr.icon
      · simp only [hB, if_false]
        by_cases hC : (fTos img = 0 ∨ fTos img = 1) ∧ fOpcode img = 11
        · simp only [hC, and_self, if_true, (qltlv_rest c g w st img).2, hr.icon]
        · simp only [hC, if_false]
          by_cases hD : fTos img = 0 ∧ (fOpcode img = 3 ∨ fOpcode img = 4)
          · simp only [hD, and_self, if_true, (parseProbe_rest c w st img hw hi).1]
            repeat' split
            all_goals exact hr.icon
          · simp only [hD, if_false]; exact hr.icon
  · rw [hp, hms]
    have hpend := hr.pend
    unfold restStep
    simp only []
    by_cases hA : fTos img = 0 ∧ fOpcode img = 8
    · simp only [hA, and_self, if_true]; rfl
    · simp only [hA, if_false]
      by_cases hB : fTos img = 0 ∧ fOpcode img = 6
      · simp only [hB, and_self, if_true]
        have hq := (C07.query c w st img hc hi (malloc_nf w c.mtuEff hw)).2
        have hrp : rep = (st.sees.take (min st.sees.length (queryMaxDescs c.mtuEff))).map toDesc := by
          rw [← hrep]
          have : (obsOf c g img (parseFrameSt c g w st img).fx).fx = (parseQuery c w st img).fx.map toObs := by
            unfold obsOf; simp only [fx_query c g w st img hB.1 hB.2]
          rw [this]
          exact query_reported c w st img hc hi him hw
        rw [hq, hrp, hpend, List.map_take, fold_remove_take, List.map_drop]
      · simp only [hB, if_false]
        by_cases hC : (fTos img = 0 ∨ fTos img = 1) ∧ fOpcode img = 11
        · simp only [hC, and_self, if_true]; exact hpend
        · simp only [hC, if_false]
          by_cases hD : fTos img = 0 ∧ (fOpcode img = 3 ∨ fOpcode img = 4)
          · simp only [hD, and_self, if_true, (parseProbe_rest c w st img hw hi).2, hown]
            by_cases h1 : (fRealDst img != c.mac) = true
            · simp only [h1, if_true]; exact hpend
            · simp only [h1, if_false]
              rw [hpend, any_key, List.length_map]
              by_cases h2 : st.sees.any (fun p => fEthSrc img == p.src && fRealSrc img == p.realSrc) = true
              · by_cases hfull : st.sees.length ≥ 1024
                · simp [h2, hfull]
                · simp [h2, hfull]
              · by_cases hfull : st.sees.length ≥ 1024
                · simp [h2, hfull]
                · simp [h2, hfull, toDesc_obsOfFrame]
          · simp only [hD, if_false]; exact hpend

/-- what the specification state accounts for equals what the record retains -/
theorem expected_eq (st : St) (s : SpecSt) (hr : Ref1024 st s) :
    expectedLive [s] = 1 + retained st ∧ expectedBytes X.stateRecBytes X.nodeBytes [s] = X.stateRecBytes + retainedBytes st := by
  unfold expectedLive expectedBytes retained retainedBytes iconBlocks iconBytes
  simp only [List.foldl_cons, List.foldl_nil, hr.icon, hr.pend, List.length_map]
  cases st.icon <;> simp <;> omega

/-- THE LEDGER THEOREM: after every frame of every history the ledger is exactly what the specification state accounts for -/
theorem history (c : Cfg) (g : Glob) (hc : CfgOk c) (hmac : c.failMac = false) :
    ∀ (imgs : List (List Nat)) (w : World) (st : St) (s : SpecSt), (∀ img ∈ imgs, ImgOk img) → NoFault w → St.Inv st → Ref1024 st s →
      Accounted w st 1 X.stateRecBytes →
      let fin := C19.runSt c g (w, st) imgs
      ∃ s', Ref1024 fin.2 s' ∧ fin.1.live = expectedLive [s'] ∧ fin.1.bytes = expectedBytes X.stateRecBytes X.nodeBytes [s'] := by
  intro imgs
  induction imgs with
  | nil =>
    intro w st s _ _ _ hr ha
    refine ⟨s, hr, ?_, ?_⟩
    · rw [(expected_eq st s hr).1]; exact ha.1
    · rw [(expected_eq st s hr).2]; exact ha.2
  | cons img rest ih =>
    intro w st s himgs hw hi hr ha
    have him := himgs img (by simp)
    simp only [C19.runSt]
    exact ih _ _ _ (fun i h => himgs i (by simp [h])) (nf_of_sched hw (parseFrameSt_sched c g w st img))
      (parseFrameSt_inv c g w st img hi him) (ref1024_step c g w st img s hc hmac hw hi him hr)
      (C19.balance c g w st img 1 X.stateRecBytes hc him.len ha)

end LLTD.C19H
