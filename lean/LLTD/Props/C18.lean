/-
  C18 — Platform faults degrade service gracefully and never wedge the responder.
  The fault schedule is part of `World` (which allocations return NULL, which transmits are refused) and of `Cfg`
  (which getters fail); the theorems quantify over all of them.
-/
import LLTD.Lemmas.Safe

namespace LLTD.C18
open LLTD

/-- no crash: whatever allocation returns nothing, whatever transmit is refused, whatever getter fails, no handler
    touches memory it does not own (every NULL result is checked before use: in the model a missing block simply
    does not exist) -/
theorem no_crash (c : Cfg) (g : Glob) (w : World) (st : St) (img : List Nat) (hc : CfgOk c) (hlen : img.length = c.mtu) :
    (parseFrameSt c g w st img).fault = none :=
  parseFrameSt_safe c g w st img hc (by omega) (by have := hc.mtuLo; omega)

/-- no leak: under every fault schedule the ledger after a frame holds exactly the retained state -/
theorem no_leak (c : Cfg) (g : Glob) (w : World) (st : St) (img : List Nat) (b bb : Nat) (hc : CfgOk c)
    (hl : 36 ≤ img.length) (h : Accounted w st b bb) :
    Accounted (parseFrameSt c g w st img).w (parseFrameSt c g w st img).st b bb :=
  parseFrameSt_ledger c g w st img b bb hc hl h

/-- a failed allocation of the per-interface record leaves everything as it was -/
theorem record_alloc_failure (c : Cfg) (g : Glob) (w : World) (img : List Nat) (hl : 36 ≤ img.length)
    (hm : (w.malloc X.stateRecBytes).2 = false) :
    (parseFrame c g w none img).1 = none ∧ (parseFrame c g w none img).2.2.1 = [] ∧ (parseFrame c g w none img).2.2.2 = none ∧
    w.same (parseFrame c g w none img).2.1 := by
  have hrd : rdOk img 0 (X.sizeofDemux + 4) = true := rdOk_of_le _ _ _ (by simp only [X.sizeofDemux_val]; omega)
  unfold parseFrame
  simp only [hrd, Bool.not_true, Bool.false_eq_true, if_false, hm, Bool.not_false, if_true]
  exact ⟨by first | rfl | trivial, by first | rfl | trivial, by first | rfl | trivial, malloc_fail w _ hm⟩

/-- the automata constructors report failure instead of dereferencing a missing allocation, and leak nothing -/
theorem ctor_mapping (w : World) (hm : (w.malloc X.sizeofAutomata).2 = false) :
    (initMapping w).2 = none ∧ w.same (initMapping w).1 := by
  unfold initMapping
  simp only [hm, Bool.not_false, if_true]
  exact ⟨by first | rfl | trivial, malloc_fail w _ hm⟩

theorem ctor_session (w : World) (hm : (w.malloc X.sizeofAutomata).2 = false) :
    (initSession w).2 = none ∧ w.same (initSession w).1 := by
  unfold initSession
  simp only [hm, Bool.not_false, if_true]
  exact ⟨by first | rfl | trivial, malloc_fail w _ hm⟩

theorem ctor_enumeration_first (w : World) (hm : (w.malloc X.sizeofAutomata).2 = false) :
    (initEnumeration w).2 = none ∧ w.same (initEnumeration w).1 := by
  unfold initEnumeration
  simp only [hm, Bool.not_false, if_true]
  exact ⟨by first | rfl | trivial, malloc_fail w _ hm⟩

/-- second allocation (the RepeatBand state) failing: the automaton already obtained is released again -/
theorem ctor_enumeration_second (w : World) (h1 : (w.malloc X.sizeofAutomata).2 = true)
    (h2 : ((w.malloc X.sizeofAutomata).1.malloc X.sizeofBandState).2 = false) :
    (initEnumeration w).2 = none ∧ w.same (initEnumeration w).1 := by
  unfold initEnumeration
  simp only [h1, h2, Bool.not_true, Bool.false_eq_true, if_false, Bool.not_false, if_true]
  exact ⟨by first | rfl | trivial, malloc_then_free w _ _ h1 (malloc_fail _ _ h2)⟩

theorem ctor_table (w : World) (hm : (w.malloc X.sizeofSessionTable).2 = false) :
    (tableCreate w).2 = none ∧ w.same (tableCreate w).1 := by
  unfold tableCreate
  simp only [hm, Bool.not_false, if_true]
  exact ⟨by first | rfl | trivial, malloc_fail w _ hm⟩

/-- after the fault has cleared, a topology Reset returns the ledger to the bare per-interface records -/
theorem reset_after_faults (c : Cfg) (g : Glob) (w : World) (st : St) (img : List Nat) (b bb : Nat)
    (htos : fTos img = 0) (hop : fOpcode img = 8) (h : Accounted w st b bb) :
    (parseFrameSt c g w st img).w.live = b ∧ (parseFrameSt c g w st img).w.bytes = bb := by
  have hr := reset_ledger w st b bb h
  have e : parseFrameSt c g w st img = { st := resetSt st, w := resetWorld w st, fx := [] } := by
    simp [parseFrameSt, htos, hop]
  rw [e]
  unfold Accounted retained retainedBytes iconBlocks iconBytes resetSt at hr
  simpa using hr

/-- non-vacuity: a world in which the second allocation fails -/
example : (({ failMalloc := [2] } : World).malloc 10).2 = true ∧ ((({ failMalloc := [2] } : World).malloc 10).1.malloc 10).2 = false := by decide

end LLTD.C18
