/-
  C15 — The session automaton follows the LLTD session life-cycle.
-/
import LLTD.Lemmas.Lookup
import LLTD.Spec.Automata

namespace LLTD.C15
open LLTD LLTD.Spec

theorem rows_in_range : ∀ r ∈ X.sessionTable, r.1 < X.sessionStatesNo ∧ r.2.1 < X.sessionStatesNo := by decide

theorem table_fits : X.sessionStatesNo = 4 ∧ X.sessionStatesNo ≤ X.maxStates ∧
    X.sessionTable.length ≤ X.maxTransitions ∧ X.sessionInit = 1 := by decide

/-- the session-event codes the classifier produces are the documented ones -/
theorem event_codes : X.sessConflicting = 0 ∧ X.sessReset = 1 ∧ X.sessNoack = 2 ∧ X.sessAcking = 3 ∧
    X.sessNoackChgd = 4 ∧ X.sessAckingChgd = 5 ∧ X.sessTopoReset = 6 ∧ X.sessHello = 7 := by decide

/-- the table is the specified life-cycle — for every integer input, inside and outside the event alphabet -/
theorem lookup_spec (s : Nat) (hs : s < 4) (e : Int) : (lookup X.sessionTable s e).1 = sessSpec s e := by
  by_cases h : e ∈ inputsOf X.sessionTable
  · have key : ∀ s' < 4, ∀ e' ∈ inputsOf X.sessionTable, (lookup X.sessionTable s' e').1 = sessSpec s' e' := by decide
    exact key s hs e h
  · rw [lookup_nomatch _ _ _ h]
    have h' : e ≠ 0 ∧ e ≠ 1 ∧ e ≠ 2 ∧ e ≠ 3 ∧ e ≠ 4 ∧ e ≠ 5 ∧ e ≠ 6 ∧ e ≠ 7 ∧ e ≠ -1 := by
      refine ⟨?_, ?_, ?_, ?_, ?_, ?_, ?_, ?_, ?_⟩ <;> (intro e'; apply h; rw [e']; decide)
    obtain ⟨h0, h1, h2, h3, h4, h5, h6, h7, hm⟩ := h'
    match s, hs with
    | 0, _ => simp [sessSpec, h1, h6, h7, hm]
    | 1, _ => simp [sessSpec, h2, h3, h0]
    | 2, _ => simp [sessSpec, h3, h5, h1, hm]
    | 3, _ => simp [sessSpec, h4, h1, hm]

theorem state_in_range (pre : Fsm) (hs : pre.state < 4) (e : Int) (now : Nat) : (stepSession pre e now).state < 4 :=
  stepTimedAux_range _ _ 4 (by decide) 2 pre e now hs

theorem last_ts (pre : Fsm) (e : Int) (now : Nat) : (stepSession pre e now).lastTs = now :=
  stepTimedAux_lastTs _ _ 1 pre e now

/-- one step of switch_state_session satisfies the property predicate, for every state, input and time -/
theorem step (pre : Fsm) (hs : pre.state < 4) (e : Int) (now : Nat) (hn : now < u64) :
    holdsC15Step (timeoutOf X.sessionTimeouts pre.state) pre (stepSession pre e now) e now = true := by
  unfold holdsC15Step
  split
  · rfl
  · by_cases hw : timeoutOf X.sessionTimeouts pre.state = 0 ∨ diff64 now pre.lastTs ≤ timeoutOf X.sessionTimeouts pre.state
    · have e' := stepTimed_within X.sessionTable X.sessionTimeouts pre e now hw
      unfold stepSession
      rw [e']
      simp only [if_pos hw, lookup_spec pre.state hs e, decide_true]
    · have hx : timeoutOf X.sessionTimeouts pre.state ≠ 0 ∧ diff64 now pre.lastTs > timeoutOf X.sessionTimeouts pre.state := by
        constructor
        · intro h0; exact hw (Or.inl h0)
        · omega
      have e' := stepTimed_expired X.sessionTable X.sessionTimeouts pre e now hn hx
      unfold stepSession
      rw [e']
      have h1 : (lookup X.sessionTable (lookup X.sessionTable pre.state (-1)).1 (-1)).1 = 1 := by
        have key : ∀ s' < 4, (lookup X.sessionTable (lookup X.sessionTable s' (-1)).1 (-1)).1 = 1 := by decide
        exact key _ hs
      simp only [if_neg hw, h1, decide_true]

/-- the same when the clock moves WHILE the call runs (`stepSessionR`: reading `now1` on entry, `now2` — whatever it is — on the
    second level after an expiry): the decision is the one for the time of entry ... -/
theorem step_moving_clock (pre : Fsm) (hs : pre.state < 4) (e : Int) (now1 now2 : Nat) (hn : now1 < u64) :
    holdsC15Step (timeoutOf X.sessionTimeouts pre.state) pre (stepSessionR pre e now1 now2) e now1 = true := by
  unfold holdsC15Step
  split
  · rfl
  · by_cases hw : timeoutOf X.sessionTimeouts pre.state = 0 ∨ diff64 now1 pre.lastTs ≤ timeoutOf X.sessionTimeouts pre.state
    · have e' := stepTimedR_within X.sessionTable X.sessionTimeouts pre e now1 now2 hw
      unfold stepSessionR
      rw [e']
      simp only [if_pos hw, lookup_spec pre.state hs e, decide_true]
    · have hx : timeoutOf X.sessionTimeouts pre.state ≠ 0 ∧ diff64 now1 pre.lastTs > timeoutOf X.sessionTimeouts pre.state := by
        constructor
        · intro h0; exact hw (Or.inl h0)
        · omega
      unfold stepSessionR
      rw [stepTimedR_expired X.sessionTable X.sessionTimeouts pre e now1 now2 hx, stepTimedAux_one_state]
      have h1 : (lookup X.sessionTable (lookup X.sessionTable pre.state (-1)).1 (-1)).1 = 1 := by
        have key : ∀ s' < 4, (lookup X.sessionTable (lookup X.sessionTable s' (-1)).1 (-1)).1 = 1 := by decide
        exact key _ hs
      simp only [if_neg hw, h1, decide_true]

/-- ... and an event that does not find the session expired stamps the time of entry, not a later reading -/
theorem stamp_at_entry (pre : Fsm) (e : Int) (now1 now2 : Nat) (hn : now1 < u64)
    (hw : timeoutOf X.sessionTimeouts pre.state = 0 ∨ diff64 now1 pre.lastTs ≤ timeoutOf X.sessionTimeouts pre.state) :
    (stepSessionR pre e now1 now2).lastTs = now1 := by
  unfold stepSessionR
  rw [stepTimedR_within X.sessionTable X.sessionTimeouts pre e now1 now2 hw]

/-- with a clock that stands still during the call this is `stepSession` -/
theorem moving_same (pre : Fsm) (e : Int) (now : Nat) : stepSessionR pre e now now = stepSession pre e now :=
  stepTimedR_same _ _ pre e now

def run (a : Fsm) : List (Int × Nat) → Fsm
  | [] => a
  | (e, now) :: rest => run (stepSession a e now) rest

def stepsOk (a : Fsm) : List (Int × Nat) → Bool
  | [] => true
  | (e, now) :: rest =>
    holdsC15Step (timeoutOf X.sessionTimeouts a.state) a (stepSession a e now) e now && stepsOk (stepSession a e now) rest

/-- all time stamps are 64-bit values; nothing else is assumed about them: the elapsed time is taken modulo 2^64, as the C code
    takes it, so a seconds counter that wraps — or a clock that steps backwards — is covered -/
def timesOk : List (Int × Nat) → Prop
  | [] => True
  | (_, now) :: rest => now < u64 ∧ timesOk rest

/-- every step of every event/time history meets the predicate -/
theorem history (a : Fsm) (hs : a.state < 4) (evs : List (Int × Nat)) (hm : timesOk evs) :
    stepsOk a evs = true ∧ (run a evs).state < 4 := by
  induction evs generalizing a with
  | nil => exact ⟨rfl, hs⟩
  | cons ev rest ih =>
    obtain ⟨e, now⟩ := ev
    obtain ⟨h2, h3⟩ := hm
    have hs' := state_in_range a hs e now
    have := ih (stepSession a e now) hs' h3
    simp only [stepsOk, run, step a hs e now h2, this.1, Bool.and_self, true_and]
    exact this.2

/-- non-vacuity of the moving-clock form: an event entered in second 51 and finished in second 52 stamps 51 -/
example : (stepSessionR ⟨3, 51⟩ 2 51 52).lastTs = 51 ∧ (stepSessionR ⟨3, 49⟩ 2 51 52) = ⟨1, 52⟩ := by decide

/-- across the wrap of the seconds counter: one second elapsed (2^64 - 1 -> 0) keeps a Complete session, three (2^64 - 2 -> 1) expire it -/
example : (stepSession ⟨3, 18446744073709551615⟩ 5 0).state = 3 ∧ (stepSession ⟨3, 18446744073709551614⟩ 5 1).state = 1 ∧
    holdsC15Step 1 ⟨3, 18446744073709551614⟩ (stepSession ⟨3, 18446744073709551614⟩ 5 1) 5 1 = true := by decide

/-- non-vacuity: a Complete session reset within its timeout goes to Nascent; the cell repaired in 79bd955 -/
example : (stepSession ⟨3, 10⟩ 1 10).state = 1 ∧ holdsC15Step 1 ⟨3, 10⟩ (stepSession ⟨3, 10⟩ 1 10) 1 10 = true := by decide

end LLTD.C15
