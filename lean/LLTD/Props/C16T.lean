/-
  C16 for the TRANSLATED SOURCE: session_table_add / _find / _remove / _clear / _update_complete_status as regenerated from
  lltdAutomata.c by tools/c2lean.py (pointer results are slot indices) keep the table consistent under ANY sequence of calls -
  by simulation: each translated call does to the record what the model's operation does (`Lemmas/TranslatedEq.lean`), so the
  model-level `C16.reach` / `add_spec` / `remove_inv_spec` are statements about the source text.  No Mathlib.
-/
import LLTD.Props.C16
import LLTD.Lemmas.TranslatedEq

namespace LLTD.C16T
open LLTD LLTD.Spec LLTD.TEq LLTD.C16

/-- the calls of the session-table API that are translated (find changes nothing; the tick's expiry sweep and the glue's direct
    field writes are hand-modelled) -/
inductive TOp where
  | add (mac : List Nat) (gen seq : Nat) | find (mac : List Nat) (gen seq : Nat) | remove (mac : List Nat) (gen : Nat)
  | clear | update | advance (s : Nat)

def TOp.ok : TOp → Prop
  | .add m g q => m.length = 6 ∧ g < 65536 ∧ q < 65536
  | .find m _ _ => m.length = 6
  | .remove m _ => m.length = 6
  | _ => True

/-- the translated functions applied to a record (second component: the seconds clock) -/
def tstep (s : T.session_table × Nat) : TOp → T.session_table × Nat
  | .add m g q => ((T.session_table_add { nowMs := s.2 * 1000, nowS := s.2 } s.1 m g q).table, s.2)
  | .find m g q => ((T.session_table_find { nowMs := s.2 * 1000, nowS := s.2 } s.1 m g q).table, s.2)
  | .remove m g => ((T.session_table_remove { nowMs := s.2 * 1000, nowS := s.2 } s.1 m g).table, s.2)
  | .clear => ((T.session_table_clear { nowMs := s.2 * 1000, nowS := s.2 } s.1).table, s.2)
  | .update => ((T.session_table_update_complete_status { nowMs := s.2 * 1000, nowS := s.2 } s.1).table, s.2)
  | .advance d => (s.1, s.2 + d)

def toOp : TOp → Op
  | .add m g q => .add m g q | .find m g _ => .find m g | .remove m g => .remove m g
  | .clear => .clear | .update => .update | .advance d => .advance d

/-- what session_table_create leaves behind -/
def createT : T.session_table := { T.session_table.zero with all_complete := true }

theorem create_sim : tableOfC createT = Table.create := by decide

def MacOk (t : Table) : Prop := ∀ x ∈ t.entries, x.mac.length = 6

theorem updateFirst_all (P : Entry → Prop) (p : Entry → Bool) (f : Entry → Entry) (l : List Entry)
    (hl : ∀ x ∈ l, P x) (hf : ∀ x, P x → P (f x)) : ∀ x ∈ updateFirst p f l, P x := by
  induction l with
  | nil => intro x hx; simp [updateFirst] at hx
  | cons y ys ih =>
    intro x hx
    unfold updateFirst at hx
    split at hx
    · rcases List.mem_cons.mp hx with rfl | h
      · exact hf _ (hl y (List.mem_cons_self ..))
      · exact hl x (List.mem_cons_of_mem _ h)
    · rcases List.mem_cons.mp hx with rfl | h
      · exact hl _ (List.mem_cons_self ..)
      · exact ih (fun z hz => hl z (List.mem_cons_of_mem _ hz)) x h

theorem macOk_step (t : Table) (now : Nat) (op : TOp) (hop : op.ok) (h : MacOk t) : MacOk (stepOp (t, now) (toOp op)).1 := by
  cases op with
  | add m g q =>
    simp only [toOp, stepOp, Table.add]
    split
    · exact updateFirst_all _ _ _ _ h (fun x hx => hx)
    · split
      · exact updateFirst_all _ _ _ _ h (fun _ _ => hop.1)
      · exact h
  | find m g q => exact h
  | remove m g =>
    simp only [toOp, stepOp, Table.remove, Table.updateStatus]
    split
    · exact updateFirst_all _ _ _ _ h (fun x hx => hx)
    · exact h
  | clear =>
    simp only [toOp, stepOp, Table.clear, Table.create]
    intro x hx
    rw [List.mem_replicate] at hx
    rw [hx.2]; rfl
  | update => exact h
  | advance d => exact h

theorem tblOk_of (t : T.session_table) (hi : TInv (tableOfC t)) (hm : MacOk (tableOfC t)) : TblOk t ∧ t.count < 256 := by
  refine ⟨⟨by simpa [tableOfC] using hi.len, ?_⟩, ?_⟩
  · intro x hx
    have := hm (entryOfC x) (by simp only [tableOfC, List.mem_map]; exact ⟨x, hx, rfl⟩)
    simpa [entryOfC] using this
  · have h1 := hi.count
    have h2 := live_le _ hi
    simp only [tableOfC] at h1 h2
    omega

/-- ONE STEP: the translated call does to the record what the model's operation does -/
theorem step_sim (t : T.session_table) (now : Nat) (op : TOp) (hop : op.ok) (hi : TInv (tableOfC t)) (hm : MacOk (tableOfC t)) :
    tableOfC (tstep (t, now) op).1 = (stepOp (tableOfC t, now) (toOp op)).1 ∧ (tstep (t, now) op).2 = (stepOp (tableOfC t, now) (toOp op)).2 := by
  obtain ⟨hok, hc⟩ := tblOk_of t hi hm
  cases op with
  | add m g q => exact ⟨(session_table_add_eq _ t m g q hok hop.1).1, rfl⟩
  | find m g q =>
    simp only [tstep, toOp, stepOp]
    rw [(session_table_find_eq _ t m g q hok hop).2]; exact ⟨rfl, trivial⟩
  | remove m g => exact ⟨session_table_remove_eq _ t m g hok hop hc, rfl⟩
  | clear => exact ⟨session_table_clear_eq { nowMs := now * 1000, nowS := now } t, rfl⟩
  | update => exact ⟨session_table_update_complete_status_eq { nowMs := now * 1000, nowS := now } t hok.hlen, rfl⟩
  | advance d => exact ⟨rfl, rfl⟩

/-- UNDER ANY SEQUENCE of the translated session-table calls (addresses of six bytes) the record the C text maintains is the
    model's table after the same operations - hence consistent: at most one session per key, at most 16, truthful count and
    all-complete flag (`C16.viewOk_of_inv`) -/
theorem reach_translated (ops : List TOp) (hops : ∀ op ∈ ops, op.ok) (now0 : Nat) :
    tableOfC (ops.foldl tstep (createT, now0)).1 = ((ops.map toOp).foldl stepOp (Table.create, now0)).1 ∧
    TInv (tableOfC (ops.foldl tstep (createT, now0)).1) := by
  suffices h : ∀ (s : T.session_table × Nat) (m : Table × Nat), tableOfC s.1 = m.1 → s.2 = m.2 → TInv m.1 → MacOk m.1 →
      tableOfC (ops.foldl tstep s).1 = ((ops.map toOp).foldl stepOp m).1 ∧ TInv (tableOfC (ops.foldl tstep s).1) by
    refine h (createT, now0) (Table.create, now0) create_sim rfl create_inv ?_
    intro x hx; simp only [Table.create] at hx; rw [List.mem_replicate] at hx; rw [hx.2]; rfl
  induction ops with
  | nil => intro s m h1 _ hi _; exact ⟨h1, by simp only [List.foldl_nil]; rw [h1]; exact hi⟩
  | cons op rest ih =>
    intro s m h1 h2 hi hm
    obtain ⟨t, now⟩ := s
    obtain ⟨mt, mnow⟩ := m
    simp only at h1 h2
    subst h1; subst h2
    have hop := hops op (List.mem_cons_self ..)
    obtain ⟨s1, s2⟩ := step_sim t now op hop hi hm
    simp only [List.foldl_cons, List.map_cons]
    have hi' : TInv (stepOp (tableOfC t, now) (toOp op)).1 := by
      have := reach_step (tableOfC t, now) (toOp op) hi
      exact this
    exact ih (fun o ho => hops o (List.mem_cons_of_mem _ ho)) (tstep (t, now) op) (stepOp (tableOfC t, now) (toOp op)) s1 s2 hi'
      (macOk_step (tableOfC t) now op hop hm)

-- non-vacuity: two sessions of one mapper under different generations through the TRANSLATED add, then one removed
example : (tableOfC ([TOp.add [2,0,0,0,0,1] 1 5, TOp.add [2,0,0,0,0,1] 2 5, TOp.remove [2,0,0,0,0,1] 1].foldl tstep (createT, 7)).1).count = 1 := by
  decide +kernel

end LLTD.C16T
