/-
  C08 — the history form.  For EVERY history of received frames on a fault-free platform the property predicate
  `holdsC08Rx` holds at every position of the model's trace: each QueryLargeTlv is answered by exactly one
  QueryLargeTlvResp that the independent decoder reads as bytes `offset .. offset+P` of the platform's data (icon as
  cached at its first request since the last Reset, friendly name, hardware identifier), P = MTU − 34, with `more` set
  exactly when bytes remain — and no QueryLargeTlvResp is ever sent except in answer to a QueryLargeTlv.
-/
import LLTD.Lemmas.History
import LLTD.Props.C08

namespace LLTD.C08H
open LLTD LLTD.Spec

theorem respFields_getD (p : Nat) (dm : Option (List Nat)) (off : Nat) : respFields p dm off = respFields p (some (dm.getD [])) off := by
  cases dm with
  | none => simp [respFields, optLen]
  | some d => rfl

theorem respFields_lt (p : Nat) (dm : Option (List Nat)) (off : Nat) : (respFields p dm off).2 < 65536 := by
  unfold respFields
  simp only []
  have hu : u16 = 65536 := rfl
  repeat' split
  all_goals first | (simp; done) | (rw [← hu]; exact Nat.mod_lt _ (by decide))

/-- the platform's bytes the specification expects for a request of type `ty` -/
def largeData (g : Glob) (cache : Option (List Nat)) (ty : Nat) : List Nat :=
  if ty = 14 then (match cache with | some c => c | none => match g.icon with | some d => d | none => [])
  else if ty = 17 then (match g.fname with | some d => d | none => [])
  else if ty = 19 then g.hwid else []

/-- fault-free sendLargeTlvResponse: exactly one frame, built from `respFields` at P = MTU − 34 -/
theorem sendLarge_nf (c : Cfg) (w : World) (st : St) (img : List Nat) (dm : Option (List Nat)) (off : Nat)
    (hc : CfgOk c) (hm : c.failMtu = false) (hw : NoFault w) :
    (sendLargeTlvResponse c w st img dm off).fx =
      [Fx.send true c.idx (largeFrame c (respDest img) st.seq (respFields (c.mtu - 34) (some (dm.getD [])) off).2
        (slice (dm.getD []) off (respFields (c.mtu - 34) (some (dm.getD [])) off).1))] := by
  have hlo := hc.mtuLo
  have hhi := hc.mtuHi
  have hmtu : c.mtuEff = c.mtu := by unfold Cfg.mtuEff; simp [hm]; omega
  have hp : (if c.mtuEff > X.sizeofDemux + X.sizeofQltlvResp then (c.mtuEff - (X.sizeofDemux + X.sizeofQltlvResp)) % u16 else 0) = c.mtu - 34 := by
    rw [hmtu]; simp only [X.sizeofDemux_val, X.sizeofQltlvResp_val]
    rw [if_pos (by omega), Nat.mod_eq_of_lt (by unfold u16; omega)]
  have hsrc : (match dm with | some d => d | none => []) = dm.getD [] := by cases dm <;> rfl
  unfold sendLargeTlvResponse
  simp only [hp]
  have hmal := malloc_nf w (X.sizeofDemux + X.sizeofQltlvResp + (c.mtu - 34)) hw
  have hb := respFields_bounds (c.mtu - 34) dm off
  have h1 : ¬((respFields (c.mtu - 34) dm off).1 > 0 ∧ off + (respFields (c.mtu - 34) dm off).1 > optLen dm) := by
    intro h; have := hb.2 h.1; omega
  have h2 : ¬(X.sizeofDemux + X.sizeofQltlvResp + (respFields (c.mtu - 34) dm off).1 > X.sizeofDemux + X.sizeofQltlvResp + (c.mtu - 34)) := by
    have := hb.1; omega
  have hsend := send_nf (w.malloc (X.sizeofDemux + X.sizeofQltlvResp + (c.mtu - 34))).1
    (nf_of_sched hw (malloc_sched w _))
  simp only [hmal, Bool.not_true, Bool.false_eq_true, if_false, if_neg h1, if_neg h2, sendFx, hsend, ← respFields_getD]
  cases dm <;> rfl

theorem setActive_seq (st : St) (r e : Mac) : (setActiveMapper st r e).seq = st.seq := by unfold setActiveMapper; split <;> rfl

/-- fault-free parseQueryLargeTlv with a non-zero sequence number: one frame carrying the specified chunk -/
theorem qltlv_fx (c : Cfg) (g : Glob) (w : World) (st : St) (img : List Nat) (hc : CfgOk c) (hm : c.failMtu = false) (hw : NoFault w)
    (hs : LLTD.fSeq img ≠ 0) (hwf : byteAt img 32 = 19 → hwIdWellFormed g.hwid = true) :
    let d := largeData g st.icon (byteAt img 32)
    let off := unbe (slice img 34 2)
    (parseQueryLargeTlv c g w st img).fx =
      [Fx.send true c.idx (largeFrame c (respDest img) (LLTD.fSeq img) (respFields (c.mtu - 34) (some d) off).2
        (slice d off (respFields (c.mtu - 34) (some d) off).1))] := by
  simp only []
  unfold parseQueryLargeTlv largeData
  simp only [hs, if_false, X.sizeofDemux_val, X.offQltlvType_val, X.offQltlvOffset_val, Nat.add_zero, X.tlvIconImage_val,
    X.tlvFriendlyName_val, X.tlvHwId_val]
  have e34 : 32 + 2 = 34 := rfl
  rw [e34]
  by_cases t14 : byteAt img 32 = 14
  · simp only [t14, if_true]
    unfold qltlvIcon
    simp only [setActive_icon]
    cases hic : st.icon with
    | some ic =>
      simp only []
      rw [sendLarge_nf c w _ img _ _ hc hm hw]
      simp [setActive_seq, setActive_icon, hic]
    | none =>
      cases hg : g.icon with
      | none =>
        simp only []
        rw [sendLarge_nf c w _ img _ _ hc hm hw]
        simp [setActive_seq, setActive_icon, hic]
      | some dd =>
        cases dd with
        | nil =>
          by_cases he : g.emptyBlock = true
          · simp only [he, if_true]
            rw [sendLarge_nf c _ _ img _ _ hc hm (nf_of_sched hw (raw_sched w _))]
            simp [setActive_seq]
          · have he' : g.emptyBlock = false := by cases h : g.emptyBlock <;> simp_all
            simp only [he', Bool.false_eq_true, if_false]
            rw [sendLarge_nf c w _ img _ _ hc hm hw]
            simp [setActive_seq, setActive_icon, hic]
        | cons b bs =>
          simp only []
          rw [sendLarge_nf c _ _ img _ _ hc hm (nf_of_sched hw (raw_sched w _))]
          simp [setActive_seq]
  · simp only [t14, if_false]
    by_cases t17 : byteAt img 32 = 17
    · simp only [t17, if_true]
      unfold qltlvFname
      cases hf : g.fname with
      | none =>
        simp only []
        rw [sendLarge_nf c w _ img _ _ hc hm hw]
        simp [setActive_seq]
      | some dd =>
        cases dd with
        | nil =>
          simp only []
          rw [sendLarge_nf c w _ img _ _ hc hm hw]
          simp [setActive_seq]
        | cons b bs =>
          simp only []
          rw [sendLarge_nf c _ _ img _ _ hc hm (nf_of_sched hw (raw_sched w _))]
          simp [setActive_seq]
    · simp only [t17, if_false]
      by_cases t19 : byteAt img 32 = 19
      · simp only [t19, if_true]
        unfold qltlvHwid
        have hmal := malloc_nf w 64 hw
        simp only [hmal, Bool.not_true, Bool.false_eq_true, if_false]
        rw [sendLarge_nf c _ _ img _ _ hc hm (nf_of_sched hw (malloc_sched w _))]
        simp [setActive_seq, C08.hwid_exact g (hwf t19)]
      · simp only [t19, if_false]
        rw [sendLarge_nf c w _ img _ _ hc hm hw]
        simp [setActive_seq]

theorem isLarge_iff (img : List Nat) (h : 36 ≤ img.length) :
    isLarge img = true ↔ ((LLTD.fTos img = 0 ∨ LLTD.fTos img = 1) ∧ LLTD.fOpcode img = 11) := by
  have : decide (img.length ≥ 36) = true := decide_eq_true (by omega)
  simp only [isLarge, this, spec_fTos, spec_fOp, Bool.true_and, Bool.and_eq_true, decide_eq_true_eq, beq_iff_eq]
  constructor
  · rintro ⟨a, b⟩; exact ⟨by omega, b⟩
  · rintro ⟨a, b⟩; exact ⟨by omega, b⟩

theorem fx_large (c : Cfg) (g : Glob) (w : World) (st : St) (img : List Nat)
    (h : (LLTD.fTos img = 0 ∨ LLTD.fTos img = 1) ∧ LLTD.fOpcode img = 11) :
    (parseFrameSt c g w st img).fx = (parseQueryLargeTlv c g w st img).fx := by
  rcases h.1 with t0 | t1
  · rw [dispatch_tos0 c g w st img t0 (by omega)]; simp [h.2]
  · rw [dispatch_tos1 c g w st img t1 (by omega)]; simp [h.2]


/-- one frame -/
theorem step_holds (c : Cfg) (g : Glob) (w : World) (st : St) (img : List Nat) (s : SpecSt)
    (hc : CfgOk c) (hm : c.failMtu = false) (hmac : c.failMac = false) (hw : NoFault w) (hi : St.Inv st) (him : ImgOk img) (hr : Ref st s) :
    holdsC08Rx s (obsOf c g img (parseFrameSt c g w st img).fx) = true := by
  have hown : c.ourMac = c.mac := by simp [Cfg.ourMac, hmac]
  have hlo := hc.mtuLo
  have hhi := hc.mtuHi
  unfold holdsC08Rx
  have hfr : (obsOf c g img (parseFrameSt c g w st img).fx).frame = img := rfl
  have hfx : (obsOf c g img (parseFrameSt c g w st img).fx).fx = (parseFrameSt c g w st img).fx.map toObs := rfl
  have hcf : (obsOf c g img (parseFrameSt c g w st img).fx).cfg = c := rfl
  have hgl : (obsOf c g img (parseFrameSt c g w st img).fx).glob = g := rfl
  rw [hfr, hfx, hcf, hgl, sends_toObs]
  by_cases hq : isLarge img = true
  · have hq' := (isLarge_iff img him.len).mp hq
    simp only [hq, Bool.not_true, Bool.false_eq_true, if_false]
    rw [fx_large c g w st img hq', spec_fSeq]
    by_cases hs : LLTD.fSeq img = 0
    · simp only [hs, if_true]
      rw [C08.seq_zero_ignored c g w st img hs]
      rfl
    · simp only [hs, if_false]
      by_cases hbad : byteAt img 32 = 19 ∧ ¬ hwIdWellFormed g.hwid = true
      · have n14 : ¬ byteAt img 32 = 14 := by omega
        have n17 : ¬ byteAt img 32 = 17 := by omega
        simp [n14, n17, hbad.1, hbad.2]
      · have hwf : byteAt img 32 = 19 → hwIdWellFormed g.hwid = true := by
          intro h; exact Classical.byContradiction (fun hn => hbad ⟨h, hn⟩)
        split
        · rfl
        · next d0 heq =>
          have hd0 : d0 = largeData g st.icon (byteAt img 32) := by
            rw [← hr.icon]; unfold largeData
            by_cases t14 : byteAt img 32 = 14
            · simp only [t14, if_true] at heq ⊢
              injection heq with heq; rw [← heq]
              cases s.iconCache <;> (try cases g.icon) <;> rfl
            · by_cases t17 : byteAt img 32 = 17
              · have n : ¬ ((17 : Nat) = 14) := by omega
                simp only [t17, n, if_true, if_false] at heq ⊢
                injection heq with heq; rw [← heq]
                cases g.fname <;> rfl
              · by_cases t19 : byteAt img 32 = 19
                · have n1 : ¬ ((19 : Nat) = 14) := by omega
                  have n2 : ¬ ((19 : Nat) = 17) := by omega
                  simp only [t19, n1, n2, if_true, if_false, hwf t19] at heq ⊢
                  injection heq with heq; rw [← heq]
                · simp only [t14, t17, t19, if_false] at heq ⊢
                  injection heq with heq; rw [← heq]
          rw [hd0]
          have hfxq := qltlv_fx c g w st img hc hm hw hs hwf
          simp only [] at hfxq
          rw [hfxq, sentFrames_send]
          generalize hd : largeData g st.icon (byteAt img 32) = d
          generalize hoff : unbe (slice img 34 2) = off
          have hdest : (respDest img).length = 6 := by
            unfold respDest; split
            · exact fRealSrc_len img him
            · rfl
          have hfs := C08.fields_spec (c.mtu - 34) (by omega) d off
          simp only [] at hfs
          obtain ⟨f1, f2, f3, f4⟩ := hfs
          have hpl : (slice d off (respFields (c.mtu - 34) (some d) off).1).length = (respFields (c.mtu - 34) (some d) off).2 % 16384 := by
            unfold slice; rw [f4, f2, ← f1]
          have hdec := decodeLargeResp_largeFrame c (respDest img) (LLTD.fSeq img) (respFields (c.mtu - 34) (some d) off).2
            (slice d off (respFields (c.mtu - 34) (some d) off).1) hc hdest (respFields_lt _ _ _) hpl
          simp only [hdec]
          have hlen : (largeFrame c (respDest img) (LLTD.fSeq img) (respFields (c.mtu - 34) (some d) off).2
              (slice d off (respFields (c.mtu - 34) (some d) off).1)).length ≤ c.mtu := by
            have hm6 := ourMac_length c hc
            unfold largeFrame
            rw [List.length_append, List.length_append, lltdHeader_length _ _ _ _ _ _ _ _ hdest hm6 hdest hm6, be_length, hpl, f2]
            have := (respFields_bounds (c.mtu - 34) (some d) off).1
            omega
          have hseq : LLTD.fSeq img % 65536 = LLTD.fSeq img := Nat.mod_eq_of_lt (fSeq_lt img him)
          have hdst : respDest img = (if (Spec.fRealSrc img == Spec.fEthSrc img) = true then Spec.fRealSrc img else bcast) := by
            unfold respDest; rw [spec_fRealSrc, spec_fEthSrc]
          have hpay : slice d off (respFields (c.mtu - 34) (some d) off).1 = (chunk (c.mtu - 34) d off).1 := by unfold slice; exact f4
          simp only [hseq, hown, beq_self_eq_true, Bool.true_and, ← hdst, hpay, f3, Bool.and_true]
          rw [← hpay]; exact decide_eq_true hlen
  · have hq' : ¬ ((LLTD.fTos img = 0 ∨ LLTD.fTos img = 1) ∧ LLTD.fOpcode img = 11) := fun h => hq ((isLarge_iff img him.len).mpr h)
    simp only [hq, Bool.not_false, if_true]
    rw [List.isEmpty_iff, List.filterMap_eq_nil_iff]
    exact no_largeResp c g w st img hc hi him hq'

/-- THE HISTORY THEOREM -/
theorem history (c : Cfg) (g : Glob) (hc : CfgOk c) (hm : c.failMtu = false) (hmac : c.failMac = false)
    (imgs : List (List Nat)) (himgs : ∀ img ∈ imgs, ImgOk img) (w : World) (hw : NoFault w) :
    holdsC08 c.mac (C05.runObs c g w {} imgs) = true :=
  ref_history c g 300 holdsC08Rx ImgOk hc hm hmac (by decide) (fun _ h => h)
    (fun w st img s hw hi him hr => step_holds c g w st img s hc hm hmac hw hi him hr)
    imgs w {} {} himgs hw init_inv ref_init

/-- end to end: a mapper that walks the offsets as C08 describes reassembles the platform's bytes (specification level,
    `C08.reassemble_all`), and each step of the walk is answered with the specified chunk (this file) -/
theorem walk_exact (p : Nat) (hp : 0 < p) (data : List Nat) : reassemble p data (data.length + 1) 0 = data :=
  C08.reassemble_all p hp data


/-- THE HISTORY THEOREM with the interface's attributes (MTU included: a walk continues correctly after the MTU changed) and the
    process-wide data changing freely from frame to frame -/
theorem history_varying (own : List Nat) (items : List (Cfg × Glob × List Nat)) (hitems : ∀ it ∈ items, ItemOk own it) (w : World) (hw : NoFault w) :
    holdsC08 own (C05.runObsV w {} items) = true :=
  ref_historyV own 300 holdsC08Rx (ItemOk own) (by decide) (fun _ h => h)
    (fun c g w st img s hq hw hi hr => step_holds c g w st img s hq.1 hq.2.1 hq.2.2.1 hw hi hq.2.2.2.2 hr)
    items w {} {} hitems hw init_inv ref_init

end LLTD.C08H
