/-
  C11 for the TRANSLATED source (DESIGN.md section 12.10): `derive_session_event` of lltdResponder/lltdAutomata.c, as translated from
  the C text on every run with the byte-level memory model (Generated/TranslatedWire.lean), satisfies the classification predicate
  `holdsC11` - acknowledging exactly when the (length-bounded) station list holds the own address or announces nobody, "changed"
  exactly when the session is known under another sequence number, Reset topology-wide exactly when addressed to broadcast, Hello,
  nothing for any other opcode - for every frame image of bytes, every session table and every own address.
-/
import LLTD.Props.C11
import LLTD.Lemmas.TranslatedEventEq

namespace LLTD.C11T
open LLTD LLTD.Spec LLTD.TEvEq

theorem classify_translated (env : TW.Env) (img : List Nat) (tbl : Option Table) (our : Mac)
    (hb : isBytes img) (hl : img.length < 18446744073709551616) (hour : our.length = 6)
    (horacle : env.session_table_find = findOracle tbl) (hwf : TableWf tbl) :
    holdsC11 img (C11.sessionsOf tbl) our (TW.derive_session_event env img img.length [] our).ret = true := by
  rw [derive_session_event_eq env img tbl our hb hl hour horacle hwf]
  exact C11.classify img tbl our

/-- the classification of the translated function depends on the `frame_len` bytes it was told about and on nothing behind them: whatever
    the receive buffer holds after the frame (the previous frame's tail, fresh heap), the event is the same - and it is the specified one -/
theorem classify_translated_any_tail (env : TW.Env) (img t : List Nat) (tbl : Option Table) (our : Mac)
    (hb : isBytes img) (hl : img.length < 18446744073709551616) (hour : our.length = 6)
    (horacle : env.session_table_find = findOracle tbl) (hwf : TableWf tbl) :
    holdsC11 img (C11.sessionsOf tbl) our (TW.derive_session_event env (img ++ t) img.length [] our).ret = true := by
  rw [derive_tail_eq env img t tbl our hb hl hour horacle hwf]
  exact C11.classify img tbl our

theorem tail_independent_translated (env : TW.Env) (img t t' : List Nat) (tbl : Option Table) (our : Mac)
    (hb : isBytes img) (hl : img.length < 18446744073709551616) (hour : our.length = 6)
    (horacle : env.session_table_find = findOracle tbl) (hwf : TableWf tbl) :
    (TW.derive_session_event env (img ++ t) img.length [] our).ret = (TW.derive_session_event env (img ++ t') img.length [] our).ret :=
  derive_tail_independent env img t t' tbl our hb hl hour horacle hwf

/-- the hypotheses are satisfiable: an empty table behind the lookup, a 40-byte image -/
example : TableWf (some Table.create) ∧ isBytes (List.replicate 40 0) := by
  refine ⟨?_, ?_⟩
  · intro t ht e he
    cases ht
    have := List.eq_of_mem_replicate he
    subst this
    decide
  · intro b hbm
    simp at hbm
    omega

end LLTD.C11T
