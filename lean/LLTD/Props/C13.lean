/-
  C13 — RepeatBand back-off follows its formula and is monotone in load.
  The model computes in the code's widths (uint64_t products, saturation,
  final uint32_t store); the statements use unbounded arithmetic and the
  documented constants NMAX = 10000, ALPHA = 45, BETA = 2.
-/
import LLTD.Model.Automata
import LLTD.Spec.Automata

namespace LLTD.C13
open LLTD LLTD.Spec

theorem constants : X.bandNmax = 10000 ∧ X.bandAlpha = 45 ∧ X.bandBeta = 2 ∧ X.bandGamma = 10 ∧ X.bandTxc = 4 ∧
    X.bandBlockTime = 300 ∧ X.bandMulFrame1 = 6 := by decide

theorem sq_lt_u64 (r : Nat) (h : r < u32) : r * r < u64 := by
  have : r * r < u32 * u32 := Nat.mul_lt_mul'' h h
  have e : u32 * u32 = u64 := by decide
  omega

/-- the repetition count computed in 64 bits with saturation equals min(NMAX, ALPHA·r²) — for every r a uint32_t can hold -/
theorem formula (r : Nat) (h32 : r < u32) : bandNewNi r = niFormula r := by
  have hq := sq_lt_u64 r h32
  have hb : X.bandBeta - 1 = 1 := by decide
  have hN : X.bandNmax = 10000 := by decide
  have hA : X.bandAlpha = 45 := by decide
  have hu64 : u64 = 18446744073709551616 := rfl
  have hu32 : u32 = 4294967296 := rfl
  have hp : satPowLoop r (X.bandBeta - 1) r = if r * r > 10000 then 10000 else r * r := by
    rw [hb]
    simp only [satPowLoop, Nat.mod_eq_of_lt hq, hN]
  have e2 : r ^ 2 = r * r := Nat.pow_two r
  unfold bandNewNi niFormula
  simp only [hp, hN, hA, e2]
  generalize r * r = q at *
  rw [hu64, hu32]
  by_cases hq1 : q > 10000
  · simp only [if_pos hq1]
    have h45 : 45 * 10000 % 18446744073709551616 > 10000 := by decide
    rw [if_pos h45]
    omega
  · simp only [if_neg hq1]
    have : 45 * q < 18446744073709551616 := by omega
    rw [Nat.mod_eq_of_lt this]
    split <;> omega

/-- band_update_stats meets the property predicate for every prior state (r any uint32_t, begun or not) -/
theorem update (pre : Band) (hr : pre.r < u32) (now : Nat) : holdsC13Update pre (bandUpdateStats pre now) = true := by
  unfold holdsC13Update bandUpdateStats
  by_cases hc : pre.r > 0 ∧ pre.begun = true
  · simp only [if_pos hc, formula pre.r hr, decide_true, Bool.true_and]
    split
    · have hpos : 1 ≤ pre.r ^ 2 := Nat.pow_pos hc.1
      have : 45 ≤ niFormula pre.r ∧ niFormula pre.r ≤ 10000 := by unfold niFormula; omega
      simp [this]
    · rfl
  · simp only [if_neg hc, decide_true, Bool.true_and]
    split
    · next h => simp [h]
    · rfl

/-- r = 0 or enumeration not begun: the count is untouched; in every case the hello counter restarts and
    the next block ends BLOCK_TIME (300 ms) later -/
theorem noop (pre : Band) (now : Nat) :
    (pre.r = 0 ∨ pre.begun = false → (bandUpdateStats pre now).ni = pre.ni) ∧
    (bandUpdateStats pre now).r = 0 ∧ (bandUpdateStats pre now).blockTs = now + 300 := by
  refine ⟨?_, rfl, ?_⟩
  · intro h
    unfold bandUpdateStats
    have : ¬(pre.r > 0 ∧ pre.begun = true) := by
      rcases h with h | h
      · omega
      · simp [h]
    simp only [if_neg this]
  · show now + X.bandBlockTime = now + 300
    have : X.bandBlockTime = 300 := by decide
    rw [this]

/-- hearing more Hellos in a block never yields a smaller count -/
theorem mono (r1 r2 : Nat) : holdsC13Mono r1 (niFormula r1) r2 (niFormula r2) = true := by
  unfold holdsC13Mono
  split
  · next h =>
    have : r1 ^ 2 ≤ r2 ^ 2 := Nat.pow_le_pow_left h 2
    have : niFormula r1 ≤ niFormula r2 := by unfold niFormula; omega
    simp [this]
  · rfl

/-- the count always stays within [ALPHA, NMAX] once r > 0 -/
theorem range (r : Nat) (h : 0 < r) : 45 ≤ niFormula r ∧ niFormula r ≤ 10000 := by
  have hpos : 1 ≤ r ^ 2 := Nat.pow_pos h
  unfold niFormula; omega

/-- the scheduled interval is exactly max(frame floor, ⌈TXC·Ni·(20/3)/GAMMA⌉) ms -/
theorem interval (ni : Nat) : bandInterval ni = max 6 (loadInterval ni) := by
  unfold bandInterval loadInterval
  have h1 : X.bandTxc = 4 := by decide
  have h2 : X.bandGamma = 10 := by decide
  have h3 : X.bandMulFrame1 = 6 := by decide
  rw [h1, h2, h3]
  simp only []
  split <;> split <;> omega

/-- a larger count never gives a shorter interval -/
theorem interval_mono (n1 n2 : Nat) (h : n1 ≤ n2) : bandInterval n1 ≤ bandInterval n2 := by
  rw [interval, interval]; unfold loadInterval; omega

/-- band_choose_hello_time meets the property predicate: never sooner than the load formula allows -/
theorem choose (pre : Band) (now : Nat) : holdsC13Choose pre (bandChooseHelloTime pre now) now = true := by
  unfold holdsC13Choose bandChooseHelloTime
  simp only [interval]
  have : now + max 6 (loadInterval pre.ni) ≥ now + loadInterval pre.ni := by omega
  simp [this]

/-- inside the tick: when the block deadline has passed in state Pausing the count is updated by the
    formula and the next Hello is re-scheduled from the *new* count -/
theorem tick_block (b : Band) (now : Nat) :
    (bandChooseHelloTime (bandUpdateStats b now) now).helloTs = now + bandInterval (bandUpdateStats b now).ni ∧
    (bandChooseHelloTime (bandUpdateStats b now) now).ni = (bandUpdateStats b now).ni := ⟨rfl, rfl⟩

/-- every Hello heard is counted: r increases by exactly one (no narrower counter, no wrap below 2^32) -/
theorem heard (pre : Band) (hr : pre.r < u32) : holdsC13Heard pre (bandOnHelloReceived pre) = true := by
  unfold holdsC13Heard bandOnHelloReceived
  have hu : u32 = 4294967296 := rfl
  by_cases hmax : pre.r = 4294967295
  · simp [hmax]
  · have hlt : pre.r + 1 < u32 := by omega
    simp [Nat.mod_eq_of_lt hlt]

/-! ## The tick itself -/

theorem enumUpdate_band (e : Fsm) (b : Band) (te ac : Bool) (nowS : Nat) (h : (enumUpdate e b te ac nowS).1.state = 1) :
    (enumUpdate e b te ac nowS).2 = b := by
  unfold enumUpdate at h ⊢
  by_cases h0 : e.state ≠ 0
  · rw [if_pos h0] at h ⊢
    by_cases ht : te = true
    · rw [if_pos ht] at h; simp at h
    · rw [if_neg ht]
      by_cases ha : ac = true
      · rw [if_pos ha]
      · rw [if_neg ha]
  · rw [if_neg h0]

theorem enumHello_band (e : Fsm) (b : Band) (lastTx0 : Nat) (port : PortMode) (nowMs : Nat) :
    (enumHello e b lastTx0 port nowMs).2.1.r = b.r ∧ (enumHello e b lastTx0 port nowMs).2.1.ni = b.ni ∧
    (enumHello e b lastTx0 port nowMs).2.1.blockTs = b.blockTs ∧ (b.begun = true → (enumHello e b lastTx0 port nowMs).2.1.begun = true) := by
  unfold enumHello
  by_cases h1 : b.helloTs > 0 ∧ nowMs ≥ b.helloTs
  · rw [if_pos h1]
    cases port <;> simp only [] <;>
      (split
       · exact ⟨rfl, rfl, rfl, fun h => h⟩
       · simp only [bandDoHello, bandChooseHelloTime]
         by_cases h3 : nowMs + bandInterval b.ni < nowMs + X.helloMinIntervalMs
         · simp only [h3, if_true]; first | exact ⟨trivial, trivial, trivial, fun _ => trivial⟩ | exact ⟨rfl, rfl, rfl, fun _ => rfl⟩ | simp
         · simp only [h3, if_false]; first | exact ⟨trivial, trivial, trivial, fun _ => trivial⟩ | exact ⟨rfl, rfl, rfl, fun _ => rfl⟩ | simp)
  · rw [if_neg h1]; exact ⟨rfl, rfl, rfl, fun h => h⟩

theorem enumBlock_holds (b bh : Band) (nowMs : Nat) (hr : b.r < u32)
    (h1 : bh.r = b.r) (h2 : bh.ni = b.ni) (h3 : bh.blockTs = b.blockTs) (h4 : b.begun = true → bh.begun = true) :
    holdsC13Tick b (enumBlock bh nowMs) nowMs = true := by
  unfold enumBlock
  by_cases hb : bh.blockTs > 0 ∧ nowMs ≥ bh.blockTs
  · rw [if_pos hb]
    unfold holdsC13Tick
    split
    · have hint : (bandChooseHelloTime (bandUpdateStats bh nowMs) nowMs).helloTs ≥
          nowMs + loadInterval (bandChooseHelloTime (bandUpdateStats bh nowMs) nowMs).ni := by
        simp only [bandChooseHelloTime, interval]; omega
      have hni : (bandChooseHelloTime (bandUpdateStats bh nowMs) nowMs).ni = (if bh.r > 0 ∧ bh.begun = true then niFormula b.r else b.ni) := by
        simp only [bandChooseHelloTime, bandUpdateStats]
        split
        · rw [h1, formula b.r hr]
        · exact h2
      have hr0 : (bandChooseHelloTime (bandUpdateStats bh nowMs) nowMs).r = 0 := rfl
      simp only [hr0, decide_true, Bool.true_and, decide_eq_true hint, Bool.and_true]
      rw [hni]
      by_cases hc : b.r > 0 ∧ b.begun = true
      · have hc' : bh.r > 0 ∧ bh.begun = true := ⟨by rw [h1]; exact hc.1, h4 hc.2⟩
        simp [hc, hc']
      · simp only [hc, if_false, Bool.and_true]
        split <;> simp
    · rfl
  · rw [if_neg hb]
    unfold holdsC13Tick
    have : ¬ (bh.blockTs = nowMs + 300 ∧ bh.blockTs ≠ b.blockTs) := fun h => h.2 h3
    simp [this]

/-- THE TICK THEOREM: whatever else the tick does (table-driven state update, Hello branch with its one-second floor,
    any wiring of the port), if it ends a block the count follows the formula and the next Hello is scheduled no sooner
    than the load formula for the NEW count allows -/
theorem tick_schedule (e : Fsm) (b : Band) (table : Option Table) (lastTx0 : Nat) (port : PortMode) (nowMs : Nat) (hr : b.r < u32) :
    match (tickEnumStage (some (e, some b)) table lastTx0 port nowMs).1 with
    | some (_, some b') => holdsC13Tick b b' nowMs = true
    | _ => True := by
  unfold tickEnumStage
  simp only []
  by_cases hs : (enumUpdate e b (tableEmptyOf table) (allCompleteOf table) (nowMs / 1000)).1.state = 1
  · simp only [hs, if_true]
    have hb := enumUpdate_band e b _ _ _ hs
    rw [hb]
    obtain ⟨h1, h2, h3, h4⟩ := enumHello_band (enumUpdate e b (tableEmptyOf table) (allCompleteOf table) (nowMs / 1000)).1 b lastTx0 port nowMs
    exact enumBlock_holds b _ nowMs hr h1 h2 h3 h4
  · simp only [hs, if_false]
    have hbt : (enumUpdate e b (tableEmptyOf table) (allCompleteOf table) (nowMs / 1000)).2.blockTs = b.blockTs ∨
        (enumUpdate e b (tableEmptyOf table) (allCompleteOf table) (nowMs / 1000)).2.blockTs = 0 := by
      unfold enumUpdate
      by_cases h0 : e.state ≠ 0
      · rw [if_pos h0]
        by_cases ht : tableEmptyOf table = true
        · rw [if_pos ht]; exact Or.inr rfl
        · rw [if_neg ht]
          by_cases ha : allCompleteOf table = true
          · rw [if_pos ha]; exact Or.inl rfl
          · rw [if_neg ha]; exact Or.inl rfl
      · rw [if_neg h0]; exact Or.inl rfl
    unfold holdsC13Tick
    have : ¬ ((enumUpdate e b (tableEmptyOf table) (allCompleteOf table) (nowMs / 1000)).2.blockTs = nowMs + 300 ∧
        (enumUpdate e b (tableEmptyOf table) (allCompleteOf table) (nowMs / 1000)).2.blockTs ≠ b.blockTs) := by
      rcases hbt with h | h
      · exact fun hh => hh.2 h
      · rw [h]; omega
    rw [if_neg this]

/-! ## The tick with a clock that moves while it runs (`tickR`) -/

theorem tickR_same (s : TickState) (port : PortMode) (n : Nat) : tickR s port n (n / 1000) n = tick s port n := rfl

theorem enumHelloR_band (e : Fsm) (b : Band) (lastTx0 : Nat) (port : PortMode) (nowMs nowL : Nat) :
    (enumHelloR e b lastTx0 port nowMs nowL).2.1.r = b.r ∧ (enumHelloR e b lastTx0 port nowMs nowL).2.1.ni = b.ni ∧
    (enumHelloR e b lastTx0 port nowMs nowL).2.1.blockTs = b.blockTs ∧ (b.begun = true → (enumHelloR e b lastTx0 port nowMs nowL).2.1.begun = true) := by
  unfold enumHelloR
  by_cases h1 : b.helloTs > 0 ∧ nowMs ≥ b.helloTs
  · rw [if_pos h1]
    cases port <;> simp only [] <;>
      (split
       · exact ⟨rfl, rfl, rfl, fun h => h⟩
       · simp only [bandDoHello, bandChooseHelloTime]
         by_cases h3 : nowL + bandInterval b.ni < nowMs + X.helloMinIntervalMs
         · simp only [h3, if_true]; first | exact ⟨trivial, trivial, trivial, fun _ => trivial⟩ | exact ⟨rfl, rfl, rfl, fun _ => rfl⟩ | simp
         · simp only [h3, if_false]; first | exact ⟨trivial, trivial, trivial, fun _ => trivial⟩ | exact ⟨rfl, rfl, rfl, fun _ => rfl⟩ | simp)
  · rw [if_neg h1]; exact ⟨rfl, rfl, rfl, fun h => h⟩

theorem enumBlockR_holds (b bh : Band) (nowMs nowL : Nat) (hr : b.r < u32)
    (h1 : bh.r = b.r) (h2 : bh.ni = b.ni) (h3 : bh.blockTs = b.blockTs) (h4 : b.begun = true → bh.begun = true) :
    holdsC13Tick b (enumBlockR bh nowMs nowL) nowL = true := by
  unfold enumBlockR
  by_cases hb : bh.blockTs > 0 ∧ nowMs ≥ bh.blockTs
  · rw [if_pos hb]
    unfold holdsC13Tick
    split
    · have hint : (bandChooseHelloTime (bandUpdateStats bh nowL) nowL).helloTs ≥
          nowL + loadInterval (bandChooseHelloTime (bandUpdateStats bh nowL) nowL).ni := by
        simp only [bandChooseHelloTime, interval]; omega
      have hni : (bandChooseHelloTime (bandUpdateStats bh nowL) nowL).ni = (if bh.r > 0 ∧ bh.begun = true then niFormula b.r else b.ni) := by
        simp only [bandChooseHelloTime, bandUpdateStats]
        split
        · rw [h1, formula b.r hr]
        · exact h2
      have hr0 : (bandChooseHelloTime (bandUpdateStats bh nowL) nowL).r = 0 := rfl
      simp only [hr0, decide_true, Bool.true_and, decide_eq_true hint, Bool.and_true]
      rw [hni]
      by_cases hc : b.r > 0 ∧ b.begun = true
      · have hc' : bh.r > 0 ∧ bh.begun = true := ⟨by rw [h1]; exact hc.1, h4 hc.2⟩
        simp [hc, hc']
      · simp only [hc, if_false, Bool.and_true]
        split <;> simp
    · rfl
  · rw [if_neg hb]
    unfold holdsC13Tick
    have : ¬ (bh.blockTs = nowL + 300 ∧ bh.blockTs ≠ b.blockTs) := fun h => h.2 h3
    simp [this]

/-- THE TICK THEOREM WITH A MOVING CLOCK: the block is judged over at the reading taken on entry (`nowMs`), but the new count's
    Hello is scheduled from the reading taken WHEN it is scheduled (`nowL`, whatever it is): no sooner than the load formula
    allows after that moment — a tick that has spent time transmitting or logging does not shorten the interval -/
theorem tick_schedule_moving (e : Fsm) (b : Band) (table : Option Table) (lastTx0 : Nat) (port : PortMode) (nowMs nowL : Nat) (hr : b.r < u32) :
    match (tickEnumStageR (some (e, some b)) table lastTx0 port nowMs nowL).1 with
    | some (_, some b') => holdsC13Tick b b' nowL = true
    | _ => True := by
  unfold tickEnumStageR
  simp only []
  by_cases hs : (enumUpdate e b (tableEmptyOf table) (allCompleteOf table) (nowL / 1000)).1.state = 1
  · simp only [hs, if_true]
    have hb := enumUpdate_band e b _ _ _ hs
    rw [hb]
    obtain ⟨h1, h2, h3, h4⟩ := enumHelloR_band (enumUpdate e b (tableEmptyOf table) (allCompleteOf table) (nowL / 1000)).1 b lastTx0 port nowMs nowL
    exact enumBlockR_holds b _ nowMs nowL hr h1 h2 h3 h4
  · simp only [hs, if_false]
    have hbt : (enumUpdate e b (tableEmptyOf table) (allCompleteOf table) (nowL / 1000)).2.blockTs = b.blockTs ∨
        (enumUpdate e b (tableEmptyOf table) (allCompleteOf table) (nowL / 1000)).2.blockTs = 0 := by
      unfold enumUpdate
      by_cases h0 : e.state ≠ 0
      · rw [if_pos h0]
        by_cases ht : tableEmptyOf table = true
        · rw [if_pos ht]; exact Or.inr rfl
        · rw [if_neg ht]
          by_cases ha : allCompleteOf table = true
          · rw [if_pos ha]; exact Or.inl rfl
          · rw [if_neg ha]; exact Or.inl rfl
      · rw [if_neg h0]; exact Or.inl rfl
    unfold holdsC13Tick
    have : ¬ ((enumUpdate e b (tableEmptyOf table) (allCompleteOf table) (nowL / 1000)).2.blockTs = nowL + 300 ∧
        (enumUpdate e b (tableEmptyOf table) (allCompleteOf table) (nowL / 1000)).2.blockTs ≠ b.blockTs) := by
      rcases hbt with h | h
      · exact fun hh => hh.2 h
      · rw [h]; omega
    rw [if_neg this]

/-! ## r counts the Hellos of ONE block, over every history

`./check C13` follows the count of Hellos heard since the block began on the specification side (reset when an enumeration
starts and when a block ends, one more for each Hello heard) and applies the block-end predicates to THAT count; the
theorem below is why this is what the model's `r` holds after every sequence of RepeatBand calls. -/

inductive BOp where
  | init (nowMs : Nat)          -- band_init_stats: an enumeration starts
  | heard                       -- band_on_hello_received
  | update (nowMs : Nat)        -- band_update_stats: a block ends
  | choose (nowMs : Nat)        -- band_choose_hello_time
  | doHello (nowMs : Nat)       -- band_do_hello
  | quiesce                     -- the tick's "table empty" branch: timers disarmed

def bstep (b : Band) : BOp → Band
  | .init n => bandInitStats b n
  | .heard => bandOnHelloReceived b
  | .update n => bandUpdateStats b n
  | .choose n => bandChooseHelloTime b n
  | .doHello n => bandDoHello b n
  | .quiesce => { b with helloTs := 0, blockTs := 0, begun := false }

/-- the specification's count of Hellos heard in the current block -/
def cstep (n : Nat) : BOp → Nat
  | .init _ => 0
  | .heard => (n + 1) % u32
  | .update _ => 0
  | _ => n

theorem block_count (ops : List BOp) (b : Band) (n : Nat) (h : b.r = n) : (ops.foldl bstep b).r = ops.foldl cstep n := by
  induction ops generalizing b n with
  | nil => exact h
  | cons op rest ih =>
    simp only [List.foldl_cons]
    apply ih
    cases op <;> simp [bstep, cstep, bandInitStats, bandOnHelloReceived, bandUpdateStats, bandChooseHelloTime, bandDoHello, h]

/-- the tick touches the count only by ending a block -/
theorem tick_count (e : Fsm) (b : Band) (table : Option Table) (lastTx0 : Nat) (port : PortMode) (nowMs : Nat) :
    match (tickEnumStage (some (e, some b)) table lastTx0 port nowMs).1 with
    | some (_, some b') => b'.r = b.r ∨ (b'.r = 0 ∧ b'.blockTs = nowMs + X.bandBlockTime)
    | _ => True := by
  unfold tickEnumStage
  simp only []
  have hu : (enumUpdate e b (tableEmptyOf table) (allCompleteOf table) (nowMs / 1000)).2.r = b.r := by
    unfold enumUpdate
    repeat' split
    all_goals rfl
  by_cases hs : (enumUpdate e b (tableEmptyOf table) (allCompleteOf table) (nowMs / 1000)).1.state = 1
  · simp only [hs, if_true]
    have hh : (enumHello (enumUpdate e b (tableEmptyOf table) (allCompleteOf table) (nowMs / 1000)).1
        (enumUpdate e b (tableEmptyOf table) (allCompleteOf table) (nowMs / 1000)).2 lastTx0 port nowMs).2.1.r = b.r := by
      rw [(enumHello_band _ _ lastTx0 port nowMs).1, hu]
    unfold enumBlock
    split
    · exact Or.inr ⟨rfl, rfl⟩
    · exact Or.inl hh
  · simp only [hs, if_false]
    exact Or.inl hu

/-- non-vacuity / the repaired overflow: r = 65536 saturates instead of wrapping to 0 -/
example : bandNewNi 65536 = 10000 ∧ bandNewNi 14 = 8820 ∧ bandNewNi 15 = 10000 ∧ bandNewNi 4294967295 = 10000 := by decide

end LLTD.C13
