/-
  C20 — The protocol core reaches the outside world only through the port API.
  A finite statement about build products: the tables in Generated/Symbols.lean
  are produced by tools/props/c20.py from the working tree on every run
  (15 native compiler configurations with `ld -r` + `nm -u`, 6 cross-target ones — Apple hosted, 32-bit x86, bare-metal ARM —
  with `llvm-nm`; the declarators of the
  preprocessed lltdPort.h; include lines; the lint's two regexes).  The
  translator carries the weight and is in the trusted base.
-/
import LLTD.Generated.Symbols

namespace LLTD.C20

/-- memory primitives a C compiler may emit by itself -/
def memPrims : List String := ["memcpy", "memset", "memmove", "memcmp"]

/-- compiler runtime (libgcc / compiler-rt / linker) symbols -/
def compilerRt : List String :=
  ["__stack_chk_fail", "__stack_chk_guard", "_GLOBAL_OFFSET_TABLE_", "__udivdi3", "__umoddi3", "__divdi3", "__moddi3",
   "__muldi3", "__ashldi3", "__lshrdi3", "__ashrdi3", "__udivmoddi4", "__bswapsi2", "__bswapdi2",
   -- ARM EABI run-time helpers (bare-metal ARM configuration)
   "__aeabi_memcpy", "__aeabi_memcpy4", "__aeabi_memcpy8", "__aeabi_memmove", "__aeabi_memmove4", "__aeabi_memmove8", "__aeabi_memset", "__aeabi_memset4",
   "__aeabi_memset8", "__aeabi_memclr", "__aeabi_memclr4", "__aeabi_memclr8", "__aeabi_uldivmod", "__aeabi_ldivmod", "__aeabi_uidiv", "__aeabi_uidivmod",
   "__aeabi_idiv", "__aeabi_idivmod", "__aeabi_lmul", "__aeabi_llsl", "__aeabi_llsr", "__aeabi_lasr"]

/-- headers a freestanding C implementation provides -/
def freestandingHeaders : List String :=
  ["stdbool.h", "stddef.h", "stdint.h", "stdarg.h", "limits.h", "float.h", "iso646.h", "stdalign.h", "stdnoreturn.h"]

def symbolOk (s : String) : Bool := Sym.portApi.contains s || memPrims.contains s || compilerRt.contains s

/-- all twenty-one configurations (fifteen native incl. -O3 / -Ofast, six for other targets the repository has ports for) produced a symbol table -/
theorem configurations : Sym.undef.length = 21 := by decide

/-- every undefined symbol of the relocatably linked core, under every configuration, is a port function,
    a memory primitive or compiler runtime -/
theorem symbols : Sym.undef.all (fun c => c.2.all symbolOk) = true := by decide

/-- the core includes only freestanding standard headers (and its own) -/
theorem includes : Sym.angleIncludes.all (fun f => f.2.all freestandingHeaders.contains) = true := by decide

/-- no OS-specific macro or header anywhere in the core (the repository's lint rule) -/
theorem no_os_tokens : Sym.osTokens.all (fun f => f.2.isEmpty) = true := by decide

/-- the port API is not empty (non-vacuity of `symbols`) -/
theorem port_api_nonempty : Sym.portApi.contains "lltd_port_send_frame" = true ∧ Sym.portApi.contains "lltd_port_malloc" = true := by decide

end LLTD.C20
