/-
  C10 — Probes emitted by one responder are observed by a peer responder.
  The emitting half (C06: what sendProbeMsg puts on the wire) composed with the observing half (C07: what
  parseProbe records): they agree on which header field names the addressee.
-/
import LLTD.Props.C06
import LLTD.Props.C07

namespace LLTD.C10
open LLTD

/-- the fields the observing half reads from a frame built by the emitting half -/
theorem header_fields (resv : Nat) (ed es rd rs : Mac) (seq op tos : Nat) (rest : List Nat)
    (h1 : ed.length = 6) (h2 : es.length = 6) (h3 : rd.length = 6) (h4 : rs.length = 6) :
    let f := lltdHeader resv ed es rd rs seq op tos ++ rest
    fEthDst f = ed ∧ fEthSrc f = es ∧ fRealDst f = rd ∧ fRealSrc f = rs ∧ fOpcode f = op ∧ fTos f = tos := by
  obtain ⟨a1, a2, a3, a4, a5, a6, rfl⟩ := len6 ed h1
  obtain ⟨b1, b2, b3, b4, b5, b6, rfl⟩ := len6 es h2
  obtain ⟨c1, c2, c3, c4, c5, c6, rfl⟩ := len6 rd h3
  obtain ⟨d1, d2, d3, d4, d5, d6, rfl⟩ := len6 rs h4
  simp [lltdHeader, be2, fEthDst, fEthSrc, fRealDst, fRealSrc, fOpcode, fTos, slice, byteAt]

/-- THE PEER THEOREM: the Probe/Train that responder A emits for a descriptor whose destination is responder B
    is, when delivered unmodified into B's receive buffer, recorded by B — with A as real source, the descriptor's
    source as Ethernet source — or was recorded already under that very key -/
theorem peer_records (a b : Cfg) (w : World) (stB : St) (src : Mac) (ty : Nat) (tail : List Nat)
    (ha : CfgOk a) (hb : CfgOk b) (hma : a.failMac = false) (hmb : b.failMac = false) (hsrc : src.length = 6)
    (hroom : stB.count < 1024) (hm : (w.malloc X.nodeBytes).2 = true) :
    let img := C06.probeFrame a src b.mac ty ++ tail
    ∃ o ∈ (parseProbe b w stB img).st.sees, o.realSrc = a.mac ∧ o.src = src := by
  have hoa : a.ourMac = a.mac := by simp [Cfg.ourMac, hma]
  have hob : b.ourMac = b.mac := by simp [Cfg.ourMac, hmb]
  have hf := header_fields 0 b.mac src b.mac a.ourMac 0 (if ty = 1 then X.opProbe else X.opTrain) X.tosDiscovery tail
    hb.mac6 hsrc hb.mac6 (ourMac_length a ha)
  simp only [] at hf ⊢
  obtain ⟨f1, f2, f3, f4, f5, f6⟩ := hf
  have himg : C06.probeFrame a src b.mac ty ++ tail =
      lltdHeader 0 b.mac src b.mac a.ourMac 0 (if ty = 1 then X.opProbe else X.opTrain) X.tosDiscovery ++ tail := rfl
  rw [himg]
  generalize lltdHeader 0 b.mac src b.mac a.ourMac 0 (if ty = 1 then X.opProbe else X.opTrain) X.tosDiscovery ++ tail = img at *
  have hus : fRealDst img = b.ourMac := by rw [f3, hob]
  by_cases hdup : stB.sees.any (fun p => (C07.obsOfFrame img).src == p.src && (C07.obsOfFrame img).realSrc == p.realSrc) = true
  · -- already recorded under this key
    have := (C07.record_dup b w stB img hdup).1
    rw [this]
    rw [List.any_eq_true] at hdup
    obtain ⟨p, hp, hk⟩ := hdup
    simp only [C07.obsOfFrame, Bool.and_eq_true, beq_iff_eq] at hk
    exact ⟨p, hp, by rw [← hk.2, f4, hoa], by rw [← hk.1, f2]⟩
  · simp only [Bool.not_eq_true] at hdup
    have := (C07.record_new b w stB img hus hroom hm hdup).1
    rw [this]
    exact ⟨C07.obsOfFrame img, by simp, by simp [C07.obsOfFrame, f4, hoa], by simp [C07.obsOfFrame, f2]⟩

/-- the emitting half names the descriptor's destination — not the mapper — as real destination
    (the disagreement repaired in beda968: before, B's filter `real destination = own address` never matched) -/
theorem emitted_real_destination (a : Cfg) (src dst : Mac) (ty : Nat) (ha : CfgOk a) (hs : src.length = 6) (hd : dst.length = 6) :
    fRealDst (C06.probeFrame a src dst ty) = dst ∧ fRealSrc (C06.probeFrame a src dst ty) = a.ourMac := by
  have hf := header_fields 0 dst src dst a.ourMac 0 (if ty = 1 then X.opProbe else X.opTrain) X.tosDiscovery [] hd hs hd (ourMac_length a ha)
  simp only [List.append_nil] at hf
  exact ⟨hf.2.2.1, hf.2.2.2.1⟩

/-- parseProbe either leaves the record as it is or puts one observation in front -/
theorem parseProbe_sees (b : Cfg) (w : World) (st : St) (img : List Nat) :
    (parseProbe b w st img).st.sees = st.sees ∨ ∃ o', (parseProbe b w st img).st.sees = o' :: st.sees := by
  unfold parseProbe
  by_cases h1 : (fRealDst img != b.ourMac) = true
  · simp only [h1, if_true]; first | exact Or.inl rfl | exact Or.inl trivial | simp
  · simp only [h1, if_false]
    by_cases h2 : seesFull st.count = true
    · simp only [h2, if_true]; first | exact Or.inl rfl | exact Or.inl trivial | simp
    · simp only [h2, if_false]
      by_cases h3 : (w.malloc X.nodeBytes).2 = true
      · simp only [h3, Bool.not_true, Bool.false_eq_true, if_false]
        by_cases h4 : st.sees.any (fun p => fEthSrc img == p.src && fRealSrc img == p.realSrc) = true
        · simp only [h4, if_true]; first | exact Or.inl rfl | exact Or.inl trivial | simp
        · simp only [h4, if_false]; first | exact Or.inr ⟨_, rfl⟩ | simp
      · simp only [Bool.not_eq_true] at h3
        simp only [h3, Bool.not_false, if_true]; first | exact Or.inl rfl | exact Or.inl trivial | simp

/-- a recorded observation stays recorded under every later Probe/Train (only a Query or a Reset removes it) -/
theorem stays_recorded (b : Cfg) (w : World) (st : St) (img : List Nat) (o : Obs) (h : o ∈ st.sees) :
    o ∈ (parseProbe b w st img).st.sees := by
  rcases parseProbe_sees b w st img with e | ⟨o', e⟩
  · rw [e]; exact h
  · rw [e]; exact List.mem_cons_of_mem _ h

/-- and the next Query lists it if it is among the first `capacity` pending observations (C07.query) -/
theorem listed_by_query (b : Cfg) (w : World) (st : St) (img : List Nat) (hc : CfgOk b) (hi : St.Inv st)
    (hm : (w.malloc b.mtuEff).2 = true) (hfew : st.sees.length ≤ queryMaxDescs b.mtuEff) :
    (parseQuery b w st img).fx =
      [Fx.send ((w.malloc b.mtuEff).1.send).2 b.idx (queryFrame b img (fSeq img) st.sees.length false (st.sees.flatMap obsWire))] := by
  have h := (C07.query b w st img hc hi hm).1
  have hmin : min st.sees.length (queryMaxDescs b.mtuEff) = st.sees.length := Nat.min_eq_left hfew
  rw [hmin] at h
  rw [List.take_length] at h
  have hd : decide (st.sees.length > st.sees.length) = false := by simp
  rw [hd] at h
  exact h

/-- non-vacuity -/
example : CfgOk { mac := [2, 0xaa, 0, 0, 0, 1], mtu := 1500 } ∧ CfgOk { mac := [2, 0xaa, 0, 0, 0, 2], mtu := 576 } :=
  ⟨⟨rfl, rfl, rfl, rfl, by decide, by decide⟩, ⟨rfl, rfl, rfl, rfl, by decide, by decide⟩⟩

end LLTD.C10
