/-
  C06 for the TRANSLATED source (DESIGN.md section 12.10): `setLltdHeaderEx` of lltdResponder/lltdWire.c, as translated from the C text
  on every run and called with the arguments `sendProbeMsg` (lltdBlock.c) passes - the descriptor's source and destination as Ethernet
  addresses, the own address as real source, the descriptor's destination as real destination, sequence number 0, Probe or Train - on
  the zeroed 32-byte frame, stores exactly the frame `C06.probeFrame_spec` is about; and with the arguments of the acknowledgement
  (own address, the mapper's apparent and real address, the session's sequence number) exactly the frame of `C06.ackFrame_spec`.
  The choice of the arguments (which address goes where) is what the hand model transcribes and the correspondence runs tie to the C text.
-/
import LLTD.Props.C06
import LLTD.Lemmas.TranslatedWireEq

namespace LLTD.C06T
open LLTD LLTD.TWEq

/-- a zeroed demultiplex header, as the segments `setLltdHeaderEx_eq` is stated for -/
theorem zero32 : List.replicate 32 0 = List.replicate 6 0 ++ (List.replicate 6 0 ++ ([0, 0] ++ ([0] ++ ([0] ++ ([0] ++ ([0] ++
    (List.replicate 6 0 ++ (List.replicate 6 0 ++ ([0, 0] ++ []))))))))) := by decide

theorem probe_frame_translated (env : TW.Env) (c : Cfg) (hc : CfgOk c) (src dst : Mac) (ty : Nat)
    (hs : src.length = 6) (hd : dst.length = 6) :
    (TW.setLltdHeaderEx env (List.replicate 32 0) src dst c.ourMac dst 0 (if ty = 1 then X.opProbe else X.opTrain) X.tosDiscovery).buffer
      = C06.probeFrame c src dst ty := by
  have hm := ourMac_length c hc
  have hop : (if ty = 1 then X.opProbe else X.opTrain) < 256 := by split <;> decide
  rw [zero32]
  have h := setLltdHeaderEx_eq env (List.replicate 6 0) (List.replicate 6 0) [0, 0] [0] [0] [0] (List.replicate 6 0) (List.replicate 6 0) [0, 0] []
    src dst c.ourMac dst 0 0 (if ty = 1 then X.opProbe else X.opTrain) X.tosDiscovery
    (by simp) (by simp) rfl rfl rfl rfl (by simp) (by simp) rfl hs hd hm hd (by decide) hop (by decide)
  rw [h.1]; simp [C06.probeFrame]

theorem ack_frame_translated (env : TW.Env) (c : Cfg) (hc : CfgOk c) (st : St)
    (ha : st.mapperApparent.length = 6) (hr : st.mapperReal.length = 6) (hseq : st.seq < 65536) :
    (TW.setLltdHeaderEx env (List.replicate 32 0) c.ourMac st.mapperApparent c.ourMac st.mapperReal st.seq X.opAck X.tosDiscovery).buffer
      = C06.ackFrame c st := by
  have hm := ourMac_length c hc
  rw [zero32]
  have h := setLltdHeaderEx_eq env (List.replicate 6 0) (List.replicate 6 0) [0, 0] [0] [0] [0] (List.replicate 6 0) (List.replicate 6 0) [0, 0] []
    c.ourMac st.mapperApparent c.ourMac st.mapperReal 0 st.seq X.opAck X.tosDiscovery
    (by simp) (by simp) rfl rfl rfl rfl (by simp) (by simp) rfl hm ha hm hr hseq (by decide) (by decide)
  rw [h.1]; simp [C06.ackFrame]

end LLTD.C06T
