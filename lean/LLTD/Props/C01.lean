/-
  C01 — Frame reception is memory-safe and free of undefined behaviour.
  In the model every read of the received buffer is checked against the image it was given and every write
  against the allocation it goes into; `fault = none` says no such access was out of bounds.  Lifetime errors
  (use after free, double free) and UB at expressions the model does not contain cannot be stated in a model with
  value semantics: they are observed by ASan/UBSan in the correspondence runs only (DESIGN.md section 5).
-/
import LLTD.Lemmas.Safe
import LLTD.Model.Event
import LLTD.Props.C14
import LLTD.Props.C15

namespace LLTD.C01
open LLTD

/-- the frame handler never reads outside the MTU-sized receive buffer nor writes outside a buffer it allocated:
    for every MTU in [576, 9216], every attribute record, every buffer image, every state, every behaviour of the
    allocator and the transmit path -/
theorem frame_safe (c : Cfg) (g : Glob) (w : World) (st : Option St) (img : List Nat) (hc : CfgOk c) (hlen : img.length = c.mtu) :
    (parseFrame c g w st img).2.2.2 = none := by
  have hlo := hc.mtuLo
  have hrd : rdOk img 0 (X.sizeofDemux + 4) = true := rdOk_of_le _ _ _ (by simp only [X.sizeofDemux_val]; omega)
  unfold parseFrame
  simp only [hrd, Bool.not_true, Bool.false_eq_true, if_false]
  split
  · exact parseFrameSt_safe c g w _ img hc (by omega) (by omega)
  · split
    · rfl
    · exact parseFrameSt_safe c g _ _ img hc (by omega) (by omega)

/-- what recvfrom leaves in the buffer is again an MTU-sized image -/
theorem recvInto_length (img frame : List Nat) (z : Bool) (h : frame.length ≤ img.length) : (recvInto img frame z).length = img.length := by
  unfold recvInto
  split <;> simp [zeros, List.length_drop] <;> omega

/-- histories: any sequence of frames of any length up to the MTU, tails kept or zeroed, never faults -/
def runRx (c : Cfg) (g : Glob) : World × Option St × List Nat → List (List Nat × Bool) → Option Fault
  | _, [] => none
  | (w, st, img), (frame, z) :: rest =>
    let img' := recvInto img frame z
    let r := parseFrame c g w st img'
    match r.2.2.2 with
    | some f => some f
    | none => runRx c g (r.2.1, r.1, img') rest

theorem history_safe (c : Cfg) (g : Glob) (hc : CfgOk c) (frames : List (List Nat × Bool)) (hf : ∀ f ∈ frames, f.1.length ≤ c.mtu)
    (w : World) (st : Option St) (img : List Nat) (hlen : img.length = c.mtu) :
    runRx c g (w, st, img) frames = none := by
  induction frames generalizing w st img with
  | nil => rfl
  | cons f rest ih =>
    obtain ⟨frame, z⟩ := f
    have hfl : frame.length ≤ img.length := by rw [hlen]; exact hf (frame, z) (by simp)
    have hl' : (recvInto img frame z).length = c.mtu := by rw [recvInto_length img frame z hfl, hlen]
    simp only [runRx, frame_safe c g w st _ hc hl']
    exact ih (fun x hx => hf x (by simp [hx])) _ _ _ hl'

/-- the Hello always fits: at most 206 bytes, and every legal MTU is at least 576 -/
theorem hello_fits (c : Cfg) (g : Glob) (gen tos : Nat) (cur app : Mac) (hc : CfgOk c) (h1 : cur.length = 6) (h2 : app.length = 6) :
    (helloFrame c g gen tos cur app).length ≤ 206 := by
  rw [helloFrame_length c g gen tos cur app hc h1 h2]
  have := helloTlvs_length_le c g hc
  omega

/-- the session-event classifier never reads past the length it was told -/
theorem stationScan_count (img : List Nat) (base stride : Nat) (our : Mac) : ∀ (k i : Nat), (stationScan img base stride our k i).2 ≤ i + k := by
  intro k
  induction k with
  | zero => intro i; simp [stationScan]
  | succ k ih =>
    intro i
    simp only [stationScan]
    split
    · simp
    · have := ih (i + 1); omega

theorem classifier_footprint (img : List Nat) (tbl : Option Table) (our : Option Mac) :
    (deriveEvent img tbl our).footprint ≤ img.length := by
  show deriveFootprint img our ≤ img.length
  unfold deriveFootprint
  simp only [X.sizeofDemux_val, X.offDiscList_val, X.strideStation_val, X.offRealDst_val, X.offOpcode_val]
  by_cases h32 : img.length < 32
  · simp [h32]
  · simp only [h32, if_false]
    by_cases h8 : fOpcode img = X.opReset
    · simp only [h8, if_true]; omega
    · simp only [h8, if_false]
      by_cases h1 : fOpcode img = X.opHello
      · simp only [h1, if_true]; omega
      · simp only [h1, if_false]
        by_cases h0 : fOpcode img = X.opDiscover
        · simp only [h0, if_true]
          by_cases h36 : img.length < 32 + 4
          · simp only [h36, if_true]; omega
          · simp only [h36, if_false]
            have hn : (ackScan img our).2 ≤ (img.length - 36) / 6 := by
              unfold ackScan
              cases our with
              | none => simp
              | some m =>
                simp only []
                split
                · simp
                · have hs := stationScan_count img (X.sizeofDemux + X.offDiscList) X.strideStation m (stationCount img) 0
                  have hc : stationCount img ≤ (img.length - 36) / 6 := by
                    unfold stationCount
                    simp only [X.sizeofDemux_val, X.offDiscList_val, X.strideStation_val]
                    by_cases hgt : unbe (slice img (32 + X.offDiscCount) 2) > (img.length - (32 + 4)) / 6
                    · rw [if_pos hgt]; omega
                    · rw [if_neg hgt]; omega
                  omega
            have hdm := Nat.div_mul_le_self (img.length - 36) 6
            by_cases hz : (ackScan img our).2 = 0
            · rw [if_pos hz]; omega
            · rw [if_neg hz]; omega
        · simp only [h0, if_false]; omega

/-- the length-checked embedded entry point never reads past the length it was told, and does nothing at all
    with a frame shorter than the demultiplex header -/
theorem esp32_footprint (frame : List Nat) : espFootprint frame ≤ frame.length := by
  unfold espFootprint
  simp only [X.sizeofDemux_val, X.offOpcode_val]
  by_cases h : frame.length < 32
  · rw [if_pos h]; omega
  · rw [if_neg h]; omega

theorem esp32_short_noop (fm fs fe : Fsm) (frame : List Nat) (now : Nat) (h : frame.length < 32) :
    espHandleFrame fm fs fe frame now = (fm, fs, fe) := by
  simp [espHandleFrame, h]

/-- no automaton ever indexes outside its states_table: the three tables as built at run time stay below
    MAX_STATES (rows of the mapping / session tables: C14.rows_in_range, C15.rows_in_range) -/
theorem enumeration_rows_in_range : ∀ r ∈ X.enumerationTable, r.1 < X.enumerationStatesNo ∧ r.2.1 < X.enumerationStatesNo := by decide

theorem tables_fit : X.mappingStatesNo ≤ X.maxStates ∧ X.sessionStatesNo ≤ X.maxStates ∧ X.enumerationStatesNo ≤ X.maxStates ∧
    X.mappingTable.length ≤ X.maxTransitions ∧ X.sessionTable.length ≤ X.maxTransitions ∧ X.enumerationTable.length ≤ X.maxTransitions := by decide

/-- non-vacuity: the smallest legal configuration -/
example : CfgOk { mac := [2, 0, 0, 0, 0, 1], mtu := 576 } := ⟨rfl, rfl, rfl, rfl, by decide, by decide⟩

end LLTD.C01
