/-
  C02 for the TRANSLATED source (DESIGN.md section 12.10): whatever `setLltdHeaderEx` of lltdResponder/lltdWire.c, as translated
  from the C text on every run, stores into a buffer with room is read back by the INDEPENDENT decoder (Spec/Decode.lean, literals
  from MS-LLTD) as a demultiplex header with EtherType 0x88D9, version 1 and exactly the addresses, service, opcode and sequence
  number passed - the header part of every `…_wellFormed` theorem of C02 - and the address comparison the handlers filter with is
  equality of the six bytes.
-/
import LLTD.Props.C02
import LLTD.Lemmas.TranslatedWireEq
import LLTD.Props.C03T

namespace LLTD.C02T
open LLTD LLTD.Spec LLTD.TWEq LLTD.CSem

theorem header_translated_decodes (env : TW.Env) (d s e v t o rd' rs' q rest es ed rs rd : List Nat) (r seq op tos : Nat)
    (hd : d.length = 6) (hs : s.length = 6) (he : e.length = 2) (hv : v.length = 1) (ht : t.length = 1) (ho : o.length = 1)
    (hrd' : rd'.length = 6) (hrs' : rs'.length = 6) (hq : q.length = 2)
    (hes : es.length = 6) (hed : ed.length = 6) (hrs : rs.length = 6) (hrd : rd.length = 6)
    (hseq : seq < 65536) (hop : op < 256) (htos : tos < 256) :
    decodeBase (TW.setLltdHeaderEx env (d ++ (s ++ (e ++ (v ++ (t ++ ([r] ++ (o ++ (rd' ++ (rs' ++ (q ++ rest)))))))))) es ed rs rd seq op tos).buffer
      = some { ethDst := ed, ethSrc := es, etherType := 0x88D9, version := 1, tos := tos, reserved := r, opcode := op,
               realDst := rd, realSrc := rs, seq := seq } := by
  rw [(setLltdHeaderEx_eq env d s e v t o rd' rs' q rest es ed rs rd r seq op tos hd hs he hv ht ho hrd' hrs' hq hes hed hrs hrd hseq hop htos).1,
    decodeBase_lltdHeader r ed es rd rs seq op tos rest hed hes hrd hrs, Nat.mod_eq_of_lt hseq]

/-- `compareEthernetAddress` as translated: true exactly when the six bytes are the same -/
theorem compare_translated (env : TW.Env) (a0 a1 a2 a3 a4 a5 b0 b1 b2 b3 b4 b5 : Nat) :
    (TW.compareEthernetAddress env [a0, a1, a2, a3, a4, a5] [b0, b1, b2, b3, b4, b5]).ret
      = decide ([a0, a1, a2, a3, a4, a5] = [b0, b1, b2, b3, b4, b5]) := by
  simp only [TW.compareEthernetAddress]
  simp [rd, unle, Bool.and_assoc]
  have key : ∀ x y : Nat, (((x : Int) == (y : Int)) : Bool) = decide (x = y) := by
    intro x y
    by_cases h : x = y
    · simp [h]
    · have : ¬ ((x : Int) = (y : Int)) := by omega
      simp [h, this]
  simp only [key]

/-- **end to end for the Hello**: what the header and property writers, as translated from the C text and composed as `answerHello`
    composes them, leave in a zeroed buffer - cut at the final offset, i.e. exactly the bytes handed to the port - is accepted by the
    INDEPENDENT decoder as a well-formed frame from this station within the MTU -/
theorem hello_translated_wellFormed (base : TW.Env) (c : Cfg) (g : Glob) (hc : CfgOk c) (hmac : c.failMac = false) (tos gen : Nat)
    (cur app : List Nat) (k : Nat)
    (htos : tos < 256) (hgen : gen < 65536) (hcur : cur.length = 6) (happ : app.length = 6)
    (hif : c.iftype < u32) (hsp : c.speed < u32) (hm : c.mode < 256) (hr : c.rate < 65536) (hlo : -128 ≤ c.rssi) (hhi : c.rssi ≤ 127)
    (hb4 : isBytes c.ipv4) (hh : g.host.length < 18446744073709551616) (hl : c.ssid.length < 18446744073709551616)
    (he : TChain.EnvOk base) (hk : (helloTlvs c g).length ≤ k) :
    let env := envOf c g base
    let b1 := TW.setLltdHeader env (List.replicate 46 0 ++ List.replicate k 0) c.ourMac bcast 0 X.opHello tos
    let b2 := TW.setHelloHeader env b1.buffer b1.ret app cur gen
    let b3 := TChain.helloChain env c.wifi b2.buffer (b1.ret + b2.ret)
    wellFormed c.mac c.mtu (b3.1.take (b1.ret + b2.ret + b3.2)) = true := by
  intro env b1 b2 b3
  have h := C03T.hello_frame_translated base c g hc tos gen cur app k htos hgen hcur happ hif hsp hm hr hlo hhi hb4 hh hl he hk
  simp only at h
  show wellFormed c.mac c.mtu ((TChain.helloChain env c.wifi b2.buffer (b1.ret + b2.ret)).1.take
    (b1.ret + b2.ret + (TChain.helloChain env c.wifi b2.buffer (b1.ret + b2.ret)).2)) = true
  rw [h.1, h.2, List.take_left]
  exact C02.hello_wellFormed c g gen tos cur app hc hmac hcur happ

end LLTD.C02T
