/-
  C11 — Acknowledgement by the mapper is recognised from the Discover.
-/
import LLTD.Model.Event
import LLTD.Spec.Event
import LLTD.Lemmas.XVals
import LLTD.Lemmas.Bytes

namespace LLTD.C11
open LLTD LLTD.Spec

/-- the scan over `k` list entries from index `i` finds the address iff it is among those entries — wherever it stands -/
theorem scan_contains (img : List Nat) (base : Nat) (our : Mac) :
    ∀ (k i : Nat), (stationScan img base 6 our k i).1 = ((List.range' i k).map (fun j => slice img (base + j * 6) 6)).contains our := by
  intro k
  induction k with
  | zero => intro i; rfl
  | succ k ih =>
    intro i
    rw [stationScan, List.range'_succ, List.map_cons, List.contains_cons]
    by_cases h : slice img (base + i * 6) 6 = our
    · have hb : (slice img (base + i * 6) 6 == our) = true := by rw [h]; exact beq_self_eq_true our
      have hb' : (our == slice img (base + i * 6) 6) = true := by rw [h]; exact beq_self_eq_true our
      rw [if_pos hb, hb']; rfl
    · have hb : ¬ (slice img (base + i * 6) 6 == our) = true := by
        intro hc; exact h (eq_of_beq hc)
      have hb' : (our == slice img (base + i * 6) 6) = false := by
        cases hq : (our == slice img (base + i * 6) 6) with
        | false => rfl
        | true => exact absurd (eq_of_beq hq).symm h
      rw [if_neg hb, hb', Bool.false_or]
      exact ih (i + 1)

theorem stationCount_min (img : List Nat) : stationCount img = min (unbe (slice img 34 2)) ((img.length - 36) / 6) := by
  unfold stationCount
  simp only [X.sizeofDemux_val, X.offDiscCount_val, X.offDiscList_val, X.strideStation_val, Nat.reduceAdd]
  split <;> omega

/-- the classifier's acknowledgement bit = "the own address is among the stations the Discover lists and holds" -/
theorem ack_iff_listed (img : List Nat) (our : Mac) (h : unbe (slice img 34 2) ≠ 0) :
    (ackScan img (some our)).1 = (stationsHeld img).contains our := by
  unfold ackScan
  simp only [X.sizeofDemux_val, X.offDiscCount_val, X.offDiscList_val, X.strideStation_val, Nat.reduceAdd, h, if_false]
  rw [scan_contains, stationCount_min]
  unfold stationsHeld
  simp only [List.range_eq_range']
  congr 2
  funext j
  congr 1
  omega

/-- the live sessions of a table, as the specification sees them -/
def sessionsOf (tbl : Option Table) : List Sess := match tbl with | some t => (viewOf t).live | none => []

theorem find_live (es : List Entry) (mac : Mac) (gen : Nat) :
    ((es.filter (·.valid)).map sessOf).find? (fun s => s.mac == mac && s.gen == gen) =
      (es.find? (fun e => e.matches mac gen)).map sessOf := by
  induction es with
  | nil => rfl
  | cons e es ih =>
    by_cases hv : e.valid = true
    · simp only [List.filter_cons, hv, if_true, List.map_cons, List.find?_cons]
      by_cases hm : (e.mac == mac && e.gen == gen) = true
      · simp [sessOf, Entry.matches, hv, hm]
      · simp only [Bool.not_eq_true] at hm
        simp only [sessOf, Entry.matches, hv, Bool.true_and, hm]
        exact ih
    · simp only [Bool.not_eq_true] at hv
      simp only [List.filter_cons, hv, Bool.false_eq_true, if_false, List.find?_cons, Entry.matches, Bool.false_and]
      exact ih

/-- THE CLASSIFICATION THEOREM: for every frame image, every session table and every own address the event
    returned is the specified one (acknowledging ⇔ listed, changed ⇔ known under another sequence number,
    Reset topology-wide ⇔ broadcast, Hello, nothing for every other opcode) -/
theorem classify (img : List Nat) (tbl : Option Table) (our : Mac) :
    holdsC11 img (sessionsOf tbl) our (deriveCode img tbl (some our)) = true := by
  unfold holdsC11 deriveCode
  simp only [X.sizeofDemux_val, X.offDiscList_val]
  by_cases h32 : img.length < 32
  · simp [h32]
  · simp only [h32, if_false]
    have hop : byteAt img 17 = fOpcode img := by simp [fOpcode]
    rw [hop]
    by_cases h8 : fOpcode img = 8
    · have hrd : slice img 18 6 = fRealDst img := by simp [fRealDst]
      simp only [h8, X.opReset_val, if_true, hrd]
      by_cases hb : fRealDst img == bcast <;> simp [hb]
    · by_cases h1 : fOpcode img = 1
      · simp [h8, h1]
      · by_cases h0 : fOpcode img = 0
        · simp only [h0, X.opReset_val, X.opHello_val, X.opDiscover_val]
          by_cases h36 : img.length < 32 + 4
          · have : img.length < 36 := by omega
            simp [h36, this]
          · have h36' : ¬ img.length < 36 := by omega
            simp only [h36, h36', if_false]
            unfold discoverEvent
            have hfind : (existingOf tbl (fRealSrc img) (fDiscGen img)).map sessOf =
                (sessionsOf tbl).find? (fun s => s.mac == slice img 24 6 && s.gen == unbe (slice img 32 2)) := by
              have e1 : slice img 24 6 = fRealSrc img := by simp [fRealSrc]
              have e2 : unbe (slice img 32 2) = fDiscGen img := by simp [fDiscGen]
              rw [e1, e2]
              cases tbl with
              | none => rfl
              | some t => simp only [sessionsOf, viewOf, existingOf]; exact (find_live t.entries _ _).symm
            rw [← hfind]
            have exid : unbe (slice img 30 2) = fSeq img := by simp [fSeq]
            rw [exid]
            generalize existingOf tbl (fRealSrc img) (fDiscGen img) = ex
            by_cases hd0 : unbe (slice img 34 2) = 0
            · have hack : (ackScan img (some our)).1 = true := by
                unfold ackScan; simp [hd0]
              cases ex with
              | none => simp [hack, hd0]
              | some e => by_cases hs : e.seq = fSeq img <;> simp [hack, hd0, sessOf, hs]
            · have hack := ack_iff_listed img our hd0
              have hge : unbe (slice img 34 2) ≥ 1 := by omega
              by_cases hl : our ∈ stationsHeld img
              · have hc : (stationsHeld img).contains our = true := by simpa using hl
                cases ex with
                | none => simp [hack, hc, hl, hge]
                | some e => by_cases hs : e.seq = fSeq img <;> simp [hack, hc, hl, hge, sessOf, hs]
              · have hc : (stationsHeld img).contains our = false := by simpa using hl
                cases ex with
                | none => simp [hack, hc, hl, hge]
                | some e => by_cases hs : e.seq = fSeq img <;> simp [hack, hc, hl, hge, sessOf, hs]
        · simp [h8, h1, h0]

/-- non-vacuity: own address in position 0 of a one-station list, exactly filling the frame (the cell repaired in d695352) -/
example : deriveCode ([255,255,255,255,255,255, 2,0,0,0,0,0x11, 0x88,0xd9, 1,0,0,0, 255,255,255,255,255,255, 2,0,0,0,0,0x11, 0,5,
    0,7, 0,1, 2,0xaa,0xbb,0xcc,0xdd,1]) none (some [2,0xaa,0xbb,0xcc,0xdd,1]) = 3 := by decide

end LLTD.C11
