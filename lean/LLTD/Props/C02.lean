/-
  C02 — Only well-formed, solicited, bounded frames ever leave the responder.
  Every frame shape the model can transmit, checked with the independent decoder; which requests cause
  transmits; how many.  Determinism clause: the model has no input that carries the content of freshly
  allocated memory (transmit buffers are built from the request, the state and the attributes only), so the
  clause is structural in the model; that the C code zero-fills before it builds is what the two-poison
  correspondence run of this check observes.
-/
import LLTD.Lemmas.Obs
import LLTD.Lemmas.Safe
import LLTD.Props.C06
import LLTD.Props.C07

namespace LLTD.C02
open LLTD LLTD.Spec

/-- the Hello is a well-formed LLTD frame: parses to its end marker, host identifier first, legal lengths, no type twice -/
theorem hello_wellFormed (c : Cfg) (g : Glob) (gen tos : Nat) (cur app : Mac) (hc : CfgOk c) (hmac : c.failMac = false)
    (h1 : cur.length = 6) (h2 : app.length = 6) :
    wellFormed c.mac c.mtu (helloFrame c g gen tos cur app) = true := by
  have hm := ourMac_length c hc
  have hown : c.ourMac = c.mac := by simp [Cfg.ourMac, hmac]
  have hlen := helloFrame_length c g gen tos cur app hc h1 h2
  have htl := helloTlvs_length_le c g hc
  have hpos := encodeTlvs_length_pos (helloProps c g)
  rw [← helloTlvs_eq] at hpos
  have hb : decodeBase (helloFrame c g gen tos cur app) =
      some { ethDst := bcast, ethSrc := c.ourMac, etherType := 0x88D9, version := 1, tos := tos, reserved := 0, opcode := X.opHello,
             realDst := bcast, realSrc := c.ourMac, seq := 0 % 65536 } := by
    unfold helloFrame
    rw [List.append_assoc]
    exact decodeBase_lltdHeader 0 bcast c.ourMac bcast c.ourMac 0 X.opHello tos _ rfl hm rfl hm
  unfold wellFormed
  rw [hb]
  have hle : (helloFrame c g gen tos cur app).length ≤ c.mtu := by rw [hlen]; have := hc.mtuLo; omega
  simp only [decide_eq_true hle, hown, X.opHello_val, beq_self_eq_true, Bool.true_and, Bool.and_true]
  have hne : ¬((1 : Nat) = 3 ∨ (1 : Nat) = 4 ∨ (1 : Nat) = 5) := by omega
  simp only [if_neg hne, show ¬ ((1 : Nat) = 7) by omega, show ¬ ((1 : Nat) = 12) by omega, if_false, if_true]
  -- the property list
  unfold helloWellFormed
  have hge : (helloFrame c g gen tos cur app).length ≥ 47 := by rw [hlen]; omega
  have hdrop : (helloFrame c g gen tos cur app).drop 46 = helloTlvs c g := by
    unfold helloFrame
    have h46 : (lltdHeader 0 bcast c.ourMac bcast c.ourMac 0 X.opHello tos ++ helloHeader gen cur app).length = 46 := by
      rw [List.length_append, lltdHeader_length _ _ _ _ _ _ _ _ rfl hm rfl hm]; simp [helloHeader, h1, h2]
    rw [← h46, List.drop_left]
  rw [hdrop, parse_helloTlvs c g _ (by omega), decide_eq_true hge]
  simp only [Bool.true_and, helloProps_lengths c g hc, helloTypes_noDup c g, Bool.and_true]
  unfold helloProps
  simp

/-- a Probe/Train frame built by the model is a well-formed 32-byte frame with the responder as real source -/
theorem probe_wellFormed (c : Cfg) (src dst : Mac) (ty : Nat) (hc : CfgOk c) (hmac : c.failMac = false)
    (h1 : src.length = 6) (h2 : dst.length = 6) : wellFormed c.mac c.mtu (C06.probeFrame c src dst ty) = true := by
  have hm := ourMac_length c hc
  have hown : c.ourMac = c.mac := by simp [Cfg.ourMac, hmac]
  have hb := decodeBase_lltdHeader 0 dst src dst c.ourMac 0 (if ty = 1 then X.opProbe else X.opTrain) X.tosDiscovery [] h2 h1 h2 hm
  rw [List.append_nil] at hb
  have hl := lltdHeader_length 0 dst src dst c.ourMac 0 (if ty = 1 then X.opProbe else X.opTrain) X.tosDiscovery h2 h1 h2 hm
  unfold wellFormed C06.probeFrame
  rw [hb, hl]
  have : 32 ≤ c.mtu := by have := hc.mtuLo; omega
  by_cases ht : ty = 1 <;> simp [ht, hown, this]

theorem ack_wellFormed (c : Cfg) (st : St) (hc : CfgOk c) (hmac : c.failMac = false) (hi : St.Inv st) :
    wellFormed c.mac c.mtu (C06.ackFrame c st) = true := by
  have hm := ourMac_length c hc
  have hown : c.ourMac = c.mac := by simp [Cfg.ourMac, hmac]
  have hb := decodeBase_lltdHeader 0 st.mapperApparent c.ourMac st.mapperReal c.ourMac st.seq X.opAck X.tosDiscovery [] hi.app hm hi.real hm
  rw [List.append_nil] at hb
  have hl := lltdHeader_length 0 st.mapperApparent c.ourMac st.mapperReal c.ourMac st.seq X.opAck X.tosDiscovery hi.app hm hi.real hm
  unfold wellFormed C06.ackFrame
  rw [hb, hl]
  have : 32 ≤ c.mtu := by have := hc.mtuLo; omega
  simp [hown, this]

theorem respDest_len (img : List Nat) (h : ImgOk img) : (respDest img).length = 6 := by
  unfold respDest; split
  · exact fRealSrc_len img h
  · rfl

theorem obsWire_length (o : Obs) (h : ObsOk o) : (obsWire o).length = 20 := by
  simp [obsWire, h.r, h.s, h.d]

theorem flatMap_obsWire_length (l : List Obs) (h : ∀ o ∈ l, ObsOk o) : (l.flatMap obsWire).length = 20 * l.length := by
  induction l with
  | nil => rfl
  | cons o os ih =>
    rw [List.flatMap_cons, List.length_append, obsWire_length o (h o (by simp)), ih (fun x hx => h x (by simp [hx]))]
    simp only [List.length_cons]; omega

/-- a QueryResp built by the model has exactly the length its descriptor count prescribes and fits the MTU -/
theorem query_wellFormed (c : Cfg) (img : List Nat) (seq n : Nat) (more : Bool) (obs : List Obs) (hc : CfgOk c) (hmac : c.failMac = false)
    (him : ImgOk img) (hobs : ∀ o ∈ obs, ObsOk o) (hn : obs.length = n) (hfit : 34 + 20 * n ≤ c.mtu) (hcap : n < 16384) :
    wellFormed c.mac c.mtu (queryFrame c img seq n more (obs.flatMap obsWire)) = true := by
  have hm := ourMac_length c hc
  have hown : c.ourMac = c.mac := by simp [Cfg.ourMac, hmac]
  have hd := respDest_len img him
  have hb := decodeBase_lltdHeader 0 (respDest img) c.ourMac (respDest img) c.ourMac seq X.opQueryResp X.tosDiscovery
    (be 2 (n ||| (if more then 0x8000 else 0)) ++ obs.flatMap obsWire) hd hm hd hm
  have hl := lltdHeader_length 0 (respDest img) c.ourMac (respDest img) c.ourMac seq X.opQueryResp X.tosDiscovery hd hm hd hm
  have hlen : (queryFrame c img seq n more (obs.flatMap obsWire)).length = 34 + 20 * n := by
    unfold queryFrame
    rw [List.length_append, List.length_append, hl, be_length, flatMap_obsWire_length obs hobs, hn]
  have hfield : unbe (slice (queryFrame c img seq n more (obs.flatMap obsWire)) 32 2) % 16384 = n := by
    unfold queryFrame
    rw [List.append_assoc, slice_append_skip _ _ 32 2 (by rw [hl]; exact Nat.le_refl _), hl, Nat.sub_self]
    rw [slice_append_left _ _ 0 2 (by simp)]
    have : slice (be 2 (n ||| (if more then 0x8000 else 0))) 0 2 = be 2 (n ||| (if more then 0x8000 else 0)) := by
      unfold slice; simp [List.take_of_length_le]
    rw [this]
    cases more with
    | false =>
      simp only [Bool.false_eq_true, if_false, Nat.or_zero]
      rw [unbe_be_of_lt 2 n (by omega)]; omega
    | true =>
      simp only [if_true]
      have key := Nat.two_pow_add_eq_or_of_lt (i := 15) (b := n) (by omega) 1
      have e : (0x8000 : Nat) = 2 ^ 15 * 1 := by decide
      rw [e, Nat.or_comm, ← key, unbe_be_of_lt 2 _ (by omega)]; omega
  unfold wellFormed
  have hq : queryFrame c img seq n more (obs.flatMap obsWire) =
      lltdHeader 0 (respDest img) c.ourMac (respDest img) c.ourMac seq X.opQueryResp X.tosDiscovery ++
        (be 2 (n ||| (if more then 0x8000 else 0)) ++ obs.flatMap obsWire) := by
    unfold queryFrame; rw [List.append_assoc]
  have hb' := hb
  rw [← hq] at hb'
  rw [hb']
  have hle : 34 + 20 * n ≤ c.mtu := hfit
  simp [hown, hlen, hfield, hle]

/-- a QueryLargeTlvResp built by the model has exactly the length its length field prescribes -/
theorem large_wellFormed (c : Cfg) (dest : Mac) (seq lenField : Nat) (payload : List Nat) (hc : CfgOk c) (hmac : c.failMac = false)
    (hd : dest.length = 6) (hf : lenField < 65536) (hp : payload.length = lenField % 16384) (hfit : 34 + payload.length ≤ c.mtu) :
    wellFormed c.mac c.mtu (largeFrame c dest seq lenField payload) = true := by
  have hm := ourMac_length c hc
  have hown : c.ourMac = c.mac := by simp [Cfg.ourMac, hmac]
  have hb := decodeBase_lltdHeader 0 dest c.ourMac dest c.ourMac seq X.opQltlvResp X.tosDiscovery (be 2 lenField ++ payload) hd hm hd hm
  have hl := lltdHeader_length 0 dest c.ourMac dest c.ourMac seq X.opQltlvResp X.tosDiscovery hd hm hd hm
  have hlen : (largeFrame c dest seq lenField payload).length = 34 + payload.length := by
    unfold largeFrame; rw [List.length_append, List.length_append, hl, be_length]
  have hfield : unbe (slice (largeFrame c dest seq lenField payload) 32 2) = lenField := by
    unfold largeFrame
    rw [List.append_assoc, slice_append_skip _ _ 32 2 (by rw [hl]; exact Nat.le_refl _), hl, Nat.sub_self, slice_append_left _ _ 0 2 (by simp)]
    have : slice (be 2 lenField) 0 2 = be 2 lenField := by unfold slice; simp [List.take_of_length_le]
    rw [this, unbe_be_of_lt 2 _ (by omega)]
  have hq : largeFrame c dest seq lenField payload =
      lltdHeader 0 dest c.ourMac dest c.ourMac seq X.opQltlvResp X.tosDiscovery ++ (be 2 lenField ++ payload) := by
    unfold largeFrame; rw [List.append_assoc]
  unfold wellFormed
  have hb' := hb
  rw [← hq] at hb'
  rw [hb']
  simp [hown, hlen, hfield, ← hp, hfit]

/-- frames are sent only in reaction to a request: a frame that is no Discover / Emit / Query / QueryLargeTlv of a
    discovery service causes no transmit (Hello, Probe, Train, ACK, responses, Reset, Charge, Flat, unknown opcodes,
    and every opcode of every other service) -/
theorem unsolicited_silent (c : Cfg) (g : Glob) (w : World) (st : St) (img : List Nat)
    (h : ¬ (fTos img = 0 ∧ (fOpcode img = 0 ∨ fOpcode img = 2 ∨ fOpcode img = 6 ∨ fOpcode img = 11)) ∧
         ¬ (fTos img = 1 ∧ (fOpcode img = 0 ∨ fOpcode img = 11))) :
    C06.sendCount (parseFrameSt c g w st img).fx = 0 := by
  obtain ⟨h0, h1⟩ := h
  by_cases t0 : fTos img = 0
  · have hops : fOpcode img ≠ 0 ∧ fOpcode img ≠ 2 ∧ fOpcode img ≠ 6 ∧ fOpcode img ≠ 11 := by
      refine ⟨?_, ?_, ?_, ?_⟩ <;> (intro e; exact h0 ⟨t0, by simp [e]⟩)
    obtain ⟨n0, n2, n6, n11⟩ := hops
    by_cases hp : fOpcode img = 3 ∨ fOpcode img = 4
    · have : (parseFrameSt c g w st img).fx = (parseProbe c w st img).fx := by
        simp [parseFrameSt, t0, n0, n2, hp]
      rw [this]
      unfold parseProbe; simp only []
      repeat' split
      all_goals rfl
    · have h3 : fOpcode img ≠ 3 := fun e => hp (Or.inl e)
      have h4 : fOpcode img ≠ 4 := fun e => hp (Or.inr e)
      by_cases h8 : fOpcode img = 8
      · simp [parseFrameSt, t0, h8, C06.sendCount]
      · simp [parseFrameSt, t0, n0, n2, h3, h4, n6, n11, h8, C06.sendCount]
  · by_cases t1 : fTos img = 1
    · have hops : fOpcode img ≠ 0 ∧ fOpcode img ≠ 11 := by
        refine ⟨?_, ?_⟩ <;> (intro e; exact h1 ⟨t1, by simp [e]⟩)
      by_cases h8 : fOpcode img = 8
      · simp [parseFrameSt, t1, h8, C06.sendCount]
      · simp [parseFrameSt, t1, hops.1, hops.2, h8, C06.sendCount]
    · simp [parseFrameSt, t0, t1, C06.sendCount]

/-- at most one frame per Discover / Query / QueryLargeTlv -/
theorem answerHello_count (c : Cfg) (g : Glob) (w : World) (st : St) (img : List Nat) : C06.sendCount (answerHello c g w st img).fx ≤ 1 := by
  unfold answerHello; simp only []
  repeat' split
  all_goals simp [C06.sendCount, sendFx]

theorem parseQuery_count (c : Cfg) (w : World) (st : St) (img : List Nat) : C06.sendCount (parseQuery c w st img).fx ≤ 1 := by
  unfold parseQuery; simp only []
  repeat' split
  all_goals simp [C06.sendCount, sendFx]

theorem sendLarge_count (c : Cfg) (w : World) (st : St) (img : List Nat) (d : Option (List Nat)) (off : Nat) :
    C06.sendCount (sendLargeTlvResponse c w st img d off).fx ≤ 1 := by
  unfold sendLargeTlvResponse; simp only []
  repeat' split
  all_goals simp [C06.sendCount, sendFx]

theorem parseQueryLargeTlv_count (c : Cfg) (g : Glob) (w : World) (st : St) (img : List Nat) :
    C06.sendCount (parseQueryLargeTlv c g w st img).fx ≤ 1 := by
  unfold parseQueryLargeTlv qltlvIcon qltlvFname qltlvHwid
  simp only []
  repeat' split
  all_goals first | (simp [C06.sendCount]; done) | exact sendLarge_count _ _ _ _ _ _ | (simp only []; exact sendLarge_count _ _ _ _ _ _)

/-- non-vacuity: the well-formedness predicate rejects a frame with a wrong real source -/
example : wellFormed [2,0,0,0,0,1] 1500 ([255,255,255,255,255,255, 2,0,0,0,0,1, 0x88,0xd9, 1,0,0,4, 2,0,0,0,0,9, 2,0,0,0,0,7, 0,0]) = false := by decide

end LLTD.C02
