/-
  C05 — the history theorem with the interface's attributes and the process-wide data changing freely from frame to frame.
-/
import LLTD.Lemmas.History

namespace LLTD.C05H
open LLTD LLTD.Spec

theorem history_varying (own : List Nat) (items : List (Cfg × Glob × List Nat)) (hitems : ∀ it ∈ items, ItemOk own it) (w : World) (hw : NoFault w) :
    holdsC05 own (C05.runObsV w {} items) = true :=
  ref_historyV own 300 holdsC05Rx (ItemOk own) (by decide) (fun _ h => h)
    (fun c g w st img s hq hw _ hr => C05.step_holds c g w st img s hq.1 hw.noM hr.mapper)
    items w {} {} hitems hw init_inv ref_init

end LLTD.C05H
