/-
  C03 for the TRANSLATED source (DESIGN.md section 12.10): the two header writers of lltdResponder/lltdWire.c, as translated from
  the C text on every run and called the way `answerHello` calls them (own address as source, broadcast as destination, sequence
  number 0, opcode Hello, the Discover's service; then the Hello upper header at offset 32 with the Discover's Ethernet source as
  apparent and its real source as current mapper), store into a zeroed buffer exactly the first 46 bytes of the frame
  `C03.hello_frame` is about.
-/
import LLTD.Props.C03
import LLTD.Lemmas.TranslatedWireEq
import LLTD.Lemmas.TranslatedHelloChain

namespace LLTD.C03T
open LLTD LLTD.TWEq

theorem hello_headers_translated (env : TW.Env) (c : Cfg) (hc : CfgOk c) (tos gen : Nat) (cur app rest : List Nat)
    (htos : tos < 256) (hgen : gen < 65536) (hcur : cur.length = 6) (happ : app.length = 6) :
    let zero := List.replicate 46 0 ++ rest
    let b1 := TW.setLltdHeader env zero c.ourMac bcast 0 X.opHello tos
    let b2 := TW.setHelloHeader env b1.buffer b1.ret app cur gen
    b2.buffer = lltdHeader 0 bcast c.ourMac bcast c.ourMac 0 X.opHello tos ++ (helloHeader gen cur app ++ rest)
    ∧ b1.ret + b2.ret = 46 := by
  intro zero b1 b2
  have hm := ourMac_length c hc
  have hz : zero = List.replicate 6 0 ++ (List.replicate 6 0 ++ ([0, 0] ++ ([0] ++ ([0] ++ ([0] ++ ([0] ++ (List.replicate 6 0 ++
      (List.replicate 6 0 ++ ([0, 0] ++ ([0, 0] ++ (List.replicate 6 0 ++ (List.replicate 6 0 ++ rest)))))))))))) := by
    simp [zero, List.replicate]
  have h1 := setLltdHeader_eq env (List.replicate 6 0) (List.replicate 6 0) [0, 0] [0] [0] [0] (List.replicate 6 0) (List.replicate 6 0) [0, 0]
    ([0, 0] ++ (List.replicate 6 0 ++ (List.replicate 6 0 ++ rest))) c.ourMac bcast 0 0 X.opHello tos
    (by simp) (by simp) rfl rfl rfl rfl (by simp) (by simp) rfl hm rfl (by decide) (by decide) htos
  have hb1 : b1.buffer = lltdHeader 0 bcast c.ourMac bcast c.ourMac 0 X.opHello tos ++ ([0, 0] ++ (List.replicate 6 0 ++ (List.replicate 6 0 ++ rest))) := by
    show (TW.setLltdHeader env zero c.ourMac bcast 0 X.opHello tos).buffer = _
    rw [hz]; exact h1.1
  have hr1 : b1.ret = 32 := by
    show (TW.setLltdHeader env zero c.ourMac bcast 0 X.opHello tos).ret = _
    rw [hz]; exact h1.2
  have hlen : (lltdHeader 0 bcast c.ourMac bcast c.ourMac 0 X.opHello tos).length = 32 := lltdHeader_length _ _ _ _ _ _ _ _ rfl hm rfl hm
  have h2 := setHelloHeader_eq env (lltdHeader 0 bcast c.ourMac bcast c.ourMac 0 X.opHello tos) [0, 0] (List.replicate 6 0) (List.replicate 6 0) rest
    app cur gen rfl (by simp) (by simp) happ hcur hgen
  rw [hlen] at h2
  refine ⟨?_, ?_⟩
  · show (TW.setHelloHeader env b1.buffer b1.ret app cur gen).buffer = _
    rw [hb1, hr1]; exact h2.1
  · show b1.ret + (TW.setHelloHeader env b1.buffer b1.ret app cur gen).ret = 46
    rw [hb1, hr1, h2.2]

/-- the frame `C03.hello_frame` is about begins with exactly these 46 bytes -/
theorem helloFrame_prefix (c : Cfg) (g : Glob) (gen tos : Nat) (cur app : Mac) :
    helloFrame c g gen tos cur app = lltdHeader 0 bcast c.ourMac bcast c.ourMac 0 X.opHello tos ++ (helloHeader gen cur app ++ helloTlvs c g) := by
  simp [helloFrame, List.append_assoc]

/-- **the whole Hello**: header writers and property writers as translated from the C text, composed as `answerHello` composes them on a
    zeroed buffer of 46 + k bytes with room for the properties, leave behind exactly the frame `C03.hello_frame` says is transmitted,
    followed by untouched zeros, and the final offset (the length handed to the port) is that frame's length -/
theorem hello_frame_translated (base : TW.Env) (c : Cfg) (g : Glob) (hc : CfgOk c) (tos gen : Nat) (cur app : List Nat) (k : Nat)
    (htos : tos < 256) (hgen : gen < 65536) (hcur : cur.length = 6) (happ : app.length = 6)
    (hif : c.iftype < u32) (hsp : c.speed < u32) (hm : c.mode < 256) (hr : c.rate < 65536) (hlo : -128 ≤ c.rssi) (hhi : c.rssi ≤ 127)
    (hb4 : isBytes c.ipv4) (hh : g.host.length < 18446744073709551616) (hl : c.ssid.length < 18446744073709551616)
    (he : TChain.EnvOk base) (hk : (helloTlvs c g).length ≤ k) :
    let env := envOf c g base
    let b1 := TW.setLltdHeader env (List.replicate 46 0 ++ List.replicate k 0) c.ourMac bcast 0 X.opHello tos
    let b2 := TW.setHelloHeader env b1.buffer b1.ret app cur gen
    let b3 := TChain.helloChain env c.wifi b2.buffer (b1.ret + b2.ret)
    b3.1 = helloFrame c g gen tos cur app ++ List.replicate (k - (helloTlvs c g).length) 0
    ∧ b1.ret + b2.ret + b3.2 = (helloFrame c g gen tos cur app).length := by
  intro env b1 b2 b3
  have hh2 := hello_headers_translated env c hc tos gen cur app (List.replicate k 0) htos hgen hcur happ
  simp only at hh2
  have hm6 := ourMac_length c hc
  have hlen46 : (lltdHeader 0 bcast c.ourMac bcast c.ourMac 0 X.opHello tos ++ helloHeader gen cur app).length = 46 := by
    rw [List.length_append, lltdHeader_length _ _ _ _ _ _ _ _ rfl hm6 rfl hm6]; simp [helloHeader, hcur, happ]
  have hchain := TChain.helloChain_writes base c g hc hif hsp hm hr hlo hhi hb4 hh hl he
    (lltdHeader 0 bcast c.ourMac bcast c.ourMac 0 X.opHello tos ++ helloHeader gen cur app) k hk
  rw [hlen46] at hchain
  have hb2 : b2.buffer = (lltdHeader 0 bcast c.ourMac bcast c.ourMac 0 X.opHello tos ++ helloHeader gen cur app) ++ List.replicate k 0 := by
    show (TW.setHelloHeader env b1.buffer b1.ret app cur gen).buffer = _
    rw [hh2.1, List.append_assoc]
  have hoff : b1.ret + b2.ret = 46 := hh2.2
  have hb3 : b3 = TChain.helloChain env c.wifi
      ((lltdHeader 0 bcast c.ourMac bcast c.ourMac 0 X.opHello tos ++ helloHeader gen cur app) ++ List.replicate k 0) 46 := by
    show TChain.helloChain env c.wifi b2.buffer (b1.ret + b2.ret) = _
    rw [hb2, hoff]
  rw [hb3, hchain, hoff, helloFrame_prefix]
  refine ⟨by simp [List.append_assoc], ?_⟩
  simp only [List.length_append] at hlen46 ⊢
  omega

end LLTD.C03T
