/-
  C06 — the history form.  For EVERY history of received frames on a fault-free platform (receive buffer of MTU
  size) the property predicate `holdsC06Rx` holds at every position of the model's trace: an Emit from the active
  mapper whose descriptors fit the frame and have kinds 0/1 causes exactly: per descriptor, in order, the pause
  and then the 32-byte Probe/Train frame MS-LLTD specifies, and after the last one the ACK to the mapper's
  addresses with the Emit's sequence number; and whatever count an Emit declares, it never causes more than
  (MTU−34)/14 + 1 transmits.
-/
import LLTD.Lemmas.History
import LLTD.Props.C06

namespace LLTD.C06H
open LLTD LLTD.Spec

theorem sendCount_eq (fx : List Fx) : (sentFrames fx).length = C06.sendCount fx := by
  induction fx with
  | nil => rfl
  | cons x xs ih =>
    cases x with
    | sleep ms => simpa [sentFrames, C06.sendCount] using ih
    | send ok i f => simpa [sentFrames, C06.sendCount] using ih

theorem flatMap_ext_mem {α β} (l : List α) (f g : α → List β) (h : ∀ x ∈ l, f x = g x) : l.flatMap f = l.flatMap g := by
  induction l with
  | nil => rfl
  | cons a as ih =>
    rw [List.flatMap_cons, List.flatMap_cons, h a (by simp), ih (fun x hx => h x (by simp [hx]))]

/-- the ACK sits after the last descriptor's Probe -/
theorem flat_ack (c : Cfg) (st : St) (img : List Nat) (n : Nat) :
    ∀ k, k ≤ n → (List.range k).flatMap (C06.descFx c st img n) =
      (List.range k).flatMap (fun i => [Fx.sleep (byteAt img (35 + 14 * i)),
        Fx.send true c.idx (C06.probeFrame c (slice img (36 + 14 * i) 6) (slice img (42 + 14 * i) 6) (byteAt img (34 + 14 * i)))]) ++
      (if k = n ∧ 1 ≤ n then [Fx.send true c.idx (C06.ackFrame c st)] else []) := by
  intro k
  induction k with
  | zero => intro _; have : ¬ (0 = n ∧ 1 ≤ n) := by omega
            simp [this]
  | succ k ih =>
    intro hk
    rw [List.range_succ, List.flatMap_append, List.flatMap_append, ih (by omega)]
    have h1 : ¬ (k = n ∧ 1 ≤ n) := by omega
    simp only [h1, if_false, List.append_nil, List.flatMap_cons, List.flatMap_nil, C06.descFx]
    by_cases hl : k + 1 = n
    · have h2 : (k + 1 = n ∧ 1 ≤ n) := ⟨hl, by omega⟩
      simp [hl, h2]
    · have h2 : ¬ (k + 1 = n ∧ 1 ≤ n) := fun h => hl h.1
      simp [hl, h2]

theorem isEmit_iff (img : List Nat) (h : 36 ≤ img.length) : isEmit img = true ↔ (LLTD.fTos img = 0 ∧ LLTD.fOpcode img = 2) := by
  have : decide (img.length ≥ 34) = true := decide_eq_true (by omega)
  simp [isEmit, this, spec_fTos, spec_fOp]

theorem fx_emit (c : Cfg) (g : Glob) (w : World) (st : St) (img : List Nat) (t0 : LLTD.fTos img = 0) (o2 : LLTD.fOpcode img = 2) :
    (parseFrameSt c g w st img).fx = (parseEmit c w st img).fx := by
  rw [dispatch_tos0 c g w st img t0 (by omega)]
  simp [o2]


theorem emitDescs_length (img : List Nat) : (emitDescs img).length = unbe (slice img 32 2) := by simp [emitDescs]

/-- one frame (receive buffer of MTU size) -/
theorem step_holds (c : Cfg) (g : Glob) (w : World) (st : St) (img : List Nat) (s : SpecSt)
    (hc : CfgOk c) (hm : c.failMtu = false) (hmac : c.failMac = false) (hw : NoFault w) (hi : St.Inv st) (him : ImgOk img)
    (hlen : img.length = c.mtu) (hr : Ref st s) :
    holdsC06Rx s (obsOf c g img (parseFrameSt c g w st img).fx) = true := by
  have hown : c.ourMac = c.mac := by simp [Cfg.ourMac, hmac]
  unfold holdsC06Rx
  have hfr : (obsOf c g img (parseFrameSt c g w st img).fx).frame = img := rfl
  have hfx : (obsOf c g img (parseFrameSt c g w st img).fx).fx = (parseFrameSt c g w st img).fx.map toObs := rfl
  have hcf : (obsOf c g img (parseFrameSt c g w st img).fx).cfg = c := rfl
  rw [hfr, hfx, hcf, sends_toObs]
  by_cases hq : isEmit img = true
  · have hq' := (isEmit_iff img him.len).mp hq
    simp only [hq, Bool.not_true, Bool.false_eq_true, if_false]
    rw [fx_emit c g w st img hq'.1 hq'.2, sendCount_eq]
    have hbound := C06.emit_bound c w st img
    simp only [decide_eq_true hbound, Bool.true_and]
    cases hmap : s.mapper with
    | none => rfl
    | unknown => rfl
    | active m a =>
      simp only []
      have hrel := hr.mapper
      rw [hmap] at hrel
      have habs : Mapper.active m a = absS st := by
        rcases hrel with h | h
        · exact Mapper.noConfusion h
        · exact h
      have hk : st.known = true := by
        unfold absS at habs
        by_cases hk : st.known = true
        · exact hk
        · simp [hk] at habs
      have hma : st.mapperReal = m ∧ st.mapperApparent = a := by
        unfold absS at habs
        simp only [hk, if_true] at habs
        injection habs with h1 h2
        exact ⟨h1.symm, h2.symm⟩
      by_cases hcond : (Spec.fRealSrc img == m && decide ((emitDescs img).length ≥ 1) &&
          decide (34 + 14 * (emitDescs img).length ≤ img.length) && (emitDescs img).all (fun d => decide (d.kind ≤ 1))) = true
      · simp only [hcond, if_true]
        simp only [Bool.and_eq_true, decide_eq_true_eq, beq_iff_eq, List.all_eq_true, emitDescs_length] at hcond
        obtain ⟨⟨⟨hsrc, hn1⟩, hfit⟩, hkinds⟩ := hcond
        have hk' : ∀ i < unbe (slice img 32 2), byteAt img (34 + 14 * i) ≤ 1 := by
          intro i hi'
          have := hkinds { kind := byteAt img (34 + 14 * i), pause := byteAt img (35 + 14 * i), src := slice img (36 + 14 * i) 6,
                           dst := slice img (42 + 14 * i) 6 } (by
            unfold emitDescs
            exact List.mem_map.mpr ⟨i, List.mem_range.mpr hi', rfl⟩)
          simpa using this
        have hex := (C06.emit_exact c w st img hc hm (by omega) ⟨hw.m, hw.s, hw.ma, hw.sa⟩ (by omega) hk').1
        have hst : setActiveMapper { st with seq := LLTD.fSeq img } (LLTD.fRealSrc img) (LLTD.fEthSrc img) = { st with seq := LLTD.fSeq img } := by
          unfold setActiveMapper; simp [hk]
        rw [hst] at hex
        rw [hex, flat_ack c _ img _ _ (Nat.le_refl _)]
        have hlast : (unbe (slice img 32 2) = unbe (slice img 32 2) ∧ 1 ≤ unbe (slice img 32 2)) := ⟨rfl, hn1⟩
        simp only [hlast, and_self, if_true, List.map_append, List.map_cons, List.map_nil, toObs, List.map_flatMap]
        unfold emitDescs
        rw [List.flatMap_map]
        have hack : C06.ackFrame c { st with seq := LLTD.fSeq img } = ackFrameSpec c.mac m a (Spec.fSeq img) := by
          rw [C06.ackFrame_spec, hown, spec_fSeq]
          simp only [hma.1, hma.2]
        rw [hack]
        have hbody : (List.range (unbe (slice img 32 2))).flatMap (fun i =>
              [FxObs.sleep (byteAt img (35 + 14 * i)),
               FxObs.tx true (C06.probeFrame c (slice img (36 + 14 * i) 6) (slice img (42 + 14 * i) 6) (byteAt img (34 + 14 * i)))]) =
            (List.range (unbe (slice img 32 2))).flatMap (fun i =>
              [FxObs.sleep (byteAt img (35 + 14 * i)),
               FxObs.tx true (probeFrameSpec c.mac { kind := byteAt img (34 + 14 * i), pause := byteAt img (35 + 14 * i),
                                                      src := slice img (36 + 14 * i) 6, dst := slice img (42 + 14 * i) 6 })]) := by
          apply flatMap_ext_mem
          intro i hi'
          have hki := hk' i (List.mem_range.mp hi')
          rw [C06.probeFrame_spec c _ _ _ hki, hown]
          rfl
        rw [hbody]
        simp
      · simp only [hcond]
        rfl
  · simp only [hq, Bool.not_false, if_true]

/-- THE HISTORY THEOREM -/
theorem history (c : Cfg) (g : Glob) (hc : CfgOk c) (hm : c.failMtu = false) (hmac : c.failMac = false)
    (imgs : List (List Nat)) (himgs : ∀ img ∈ imgs, ImgOk img ∧ img.length = c.mtu) (w : World) (hw : NoFault w) :
    holdsC06 c.mac (C05.runObs c g w {} imgs) = true :=
  ref_history c g 300 holdsC06Rx (fun img => ImgOk img ∧ img.length = c.mtu) hc hm hmac (by decide) (fun _ h => h.1)
    (fun w st img s hw hi him hr => step_holds c g w st img s hc hm hmac hw hi him.1 him.2 hr)
    imgs w {} {} himgs hw init_inv ref_init


/-- THE HISTORY THEOREM with the attributes changing from frame to frame (each image as long as the MTU current at that frame) -/
theorem history_varying (own : List Nat) (items : List (Cfg × Glob × List Nat))
    (hitems : ∀ it ∈ items, ItemOk own it ∧ it.2.2.length = it.1.mtu) (w : World) (hw : NoFault w) :
    holdsC06 own (C05.runObsV w {} items) = true :=
  ref_historyV own 300 holdsC06Rx (fun it => ItemOk own it ∧ it.2.2.length = it.1.mtu) (by decide) (fun _ h => h.1)
    (fun c g w st img s hq hw hi hr => step_holds c g w st img s hq.1.1 hq.1.2.1 hq.1.2.2.1 hw hi hq.1.2.2.2.2 hq.2 hr)
    items w {} {} hitems hw init_inv ref_init

end LLTD.C06H
