/-
  C09 — A Reset returns the responder to fresh-start behaviour.
  Bisimulation up to `norm`: while no mapper is known, the stored mapper addresses are dead (they are only read
  after being overwritten), so a state that differs from the fresh one only in those two fields reacts identically.
-/
import LLTD.Lemmas.Safe

namespace LLTD.C09
open LLTD

/-- forget the mapper addresses when no mapper is known -/
def norm (st : St) : St := if st.known then st else { st with mapperReal := zeroMac, mapperApparent := zeroMac }

/-- same reaction: port calls, allocator / ledger effects, faults; next states equal up to dead fields -/
def SameReaction (a b : Out) : Prop := a.fx = b.fx ∧ a.w = b.w ∧ a.fault = b.fault ∧ norm a.st = norm b.st

theorem same_refl (a : Out) : SameReaction a a := ⟨rfl, rfl, rfl, rfl⟩

theorem norm_idem (st : St) : norm (norm st) = norm st := by
  unfold norm; by_cases h : st.known = true <;> simp [h]

theorem setActive_norm (st : St) (r e : Mac) (hk : st.known = false) :
    setActiveMapper (norm st) r e = setActiveMapper st r e := by
  unfold setActiveMapper norm; simp [hk]

theorem matches_norm (st : St) (r : Mac) (hk : st.known = false) : mapperMatches (norm st) r = mapperMatches st r := by
  unfold mapperMatches norm; simp [hk]

theorem norm_eq_of (a b : St) (h1 : a.sees = b.sees) (h2 : a.count = b.count) (h3 : a.known = b.known) (h4 : a.seq = b.seq)
    (h5 : a.genTopo = b.genTopo) (h6 : a.genQuick = b.genQuick) (h7 : a.icon = b.icon)
    (h8 : a.known = true → a.mapperReal = b.mapperReal ∧ a.mapperApparent = b.mapperApparent) : norm a = norm b := by
  cases a; cases b
  simp only [] at *
  subst h1 h2 h3 h4 h5 h6 h7
  unfold norm
  simp only []
  split
  · next hk => obtain ⟨e1, e2⟩ := h8 hk; subst e1 e2; rfl
  · rfl

theorem norm_fields (st : St) (hk : st.known = false) :
    (norm st).sees = st.sees ∧ (norm st).count = st.count ∧ (norm st).known = false ∧ (norm st).seq = st.seq ∧
    (norm st).genTopo = st.genTopo ∧ (norm st).genQuick = st.genQuick ∧ (norm st).icon = st.icon := by
  unfold norm; simp [hk]

theorem seq_norm (st : St) (v : Nat) (r e : Mac) (hk : st.known = false) :
    setActiveMapper { norm st with seq := v } r e = setActiveMapper { st with seq := v } r e := by
  unfold setActiveMapper norm; simp [hk]

theorem emit_norm (c : Cfg) (w : World) (st : St) (img : List Nat) (hk : st.known = false) :
    SameReaction (parseEmit c w st img) (parseEmit c w (norm st) img) := by
  unfold parseEmit
  simp only [seq_norm st _ _ _ hk]
  by_cases hg : c.failMtu = true ∨ c.mtu < X.sizeofDemux + X.sizeofEmitHdr
  · simp only [if_pos hg]; exact ⟨rfl, rfl, rfl, (norm_idem st).symm⟩
  · simp only [if_neg hg]; exact same_refl _

theorem probe_norm (c : Cfg) (w : World) (st : St) (img : List Nat) (hk : st.known = false) :
    SameReaction (parseProbe c w st img) (parseProbe c w (norm st) img) := by
  obtain ⟨f1, f2, f3, f4, f5, f6, f7⟩ := norm_fields st hk
  unfold parseProbe
  simp only [f1, f2]
  by_cases h1 : (fRealDst img != c.ourMac) = true
  · simp only [h1, if_true]; exact ⟨rfl, rfl, rfl, (norm_idem st).symm⟩
  · simp only [h1, if_false]
    by_cases h2 : seesFull st.count = true
    · simp only [h2, if_true]; exact ⟨rfl, rfl, rfl, (norm_idem st).symm⟩
    · simp only [h2, if_false]
      by_cases h3 : (w.malloc X.nodeBytes).2 = true
      · simp only [h3, Bool.not_true, Bool.false_eq_true, if_false]
        split
        · exact ⟨rfl, rfl, rfl, (norm_idem st).symm⟩
        · refine ⟨rfl, rfl, rfl, ?_⟩
          apply norm_eq_of <;> simp [f3, f4, f5, f6, f7, hk]
      · simp only [Bool.not_eq_true] at h3
        simp only [h3, Bool.not_false, if_true]; exact ⟨rfl, rfl, rfl, (norm_idem st).symm⟩

theorem query_norm (c : Cfg) (w : World) (st : St) (img : List Nat) (hk : st.known = false) :
    parseQuery c w (norm st) img = parseQuery c w st img := by
  obtain ⟨f1, f2, f3, f4, f5, f6, f7⟩ := norm_fields st hk
  have e : ({ norm st with seq := fSeq img, mapperReal := fRealSrc img, mapperApparent := fEthSrc img, known := true } : St) =
      { st with seq := fSeq img, mapperReal := fRealSrc img, mapperApparent := fEthSrc img, known := true } := by
    unfold norm; simp [hk]
  unfold parseQuery
  simp only [f1, f2, f5, f6, f7]

theorem qltlv_norm (c : Cfg) (g : Glob) (w : World) (st : St) (img : List Nat) (hk : st.known = false) :
    SameReaction (parseQueryLargeTlv c g w st img) (parseQueryLargeTlv c g w (norm st) img) := by
  unfold parseQueryLargeTlv
  by_cases hs0 : fSeq img = 0
  · simp only [hs0, if_true]; exact ⟨rfl, rfl, rfl, (norm_idem st).symm⟩
  · simp only [hs0, if_false, seq_norm st _ _ _ hk]; exact same_refl _

/-- THE DEAD-FIELD THEOREM: a state and its normal form react identically to every frame -/
theorem dead_fields (c : Cfg) (g : Glob) (w : World) (st : St) (img : List Nat) :
    SameReaction (parseFrameSt c g w st img) (parseFrameSt c g w (norm st) img) := by
  by_cases hk : st.known = true
  · have : norm st = st := by unfold norm; simp [hk]
    rw [this]; exact same_refl _
  · simp only [Bool.not_eq_true] at hk
    obtain ⟨f1, f2, f3, f4, f5, f6, f7⟩ := norm_fields st hk
    by_cases o0 : fOpcode img = 0
    · by_cases t01 : fTos img = 0 ∨ fTos img = 1
      · -- Discover of a discovery service: the pre-step overwrites both addresses
        have hmt : mapperMatches st (fRealSrc img) = true := by unfold mapperMatches; simp [hk]
        have hmt' : mapperMatches (norm st) (fRealSrc img) = true := by rw [matches_norm st _ hk]; exact hmt
        have hpre : preStep (norm st) img = preStep st img := by unfold preStep; rw [setActive_norm st _ _ hk]
        rw [parseFrameSt_discover c g w st img t01 o0, parseFrameSt_discover c g w (norm st) img t01 o0, if_pos hmt, if_pos hmt', hpre]
        exact same_refl _
      · have h0 : fTos img ≠ 0 := fun e => t01 (Or.inl e)
        have h1 : fTos img ≠ 1 := fun e => t01 (Or.inr e)
        rw [dispatch_other c g w st img h0 h1, dispatch_other c g w (norm st) img h0 h1]
        exact ⟨rfl, rfl, rfl, (norm_idem st).symm⟩
    · by_cases t0 : fTos img = 0
      · rw [dispatch_tos0 c g w st img t0 o0, dispatch_tos0 c g w (norm st) img t0 o0]
        by_cases o2 : fOpcode img = 2
        · simp only [o2, if_true]; exact emit_norm c w st img hk
        · simp only [o2, if_false]
          by_cases o34 : fOpcode img = 3 ∨ fOpcode img = 4
          · simp only [o34, if_true]; exact probe_norm c w st img hk
          · simp only [o34, if_false]
            by_cases o6 : fOpcode img = 6
            · simp only [o6, if_true, query_norm c w st img hk]; exact same_refl _
            · simp only [o6, if_false]
              by_cases o11 : fOpcode img = 11
              · simp only [o11, if_true]; exact qltlv_norm c g w st img hk
              · simp only [o11, if_false]
                by_cases o8 : fOpcode img = 8
                · simp only [o8, if_true]
                  refine ⟨rfl, ?_, rfl, ?_⟩
                  · simp only [resetWorld, f1, f7]
                  · apply norm_eq_of <;> simp [resetSt]
                · simp only [o8, if_false]; exact ⟨rfl, rfl, rfl, (norm_idem st).symm⟩
      · by_cases t1 : fTos img = 1
        · rw [dispatch_tos1 c g w st img t1 o0, dispatch_tos1 c g w (norm st) img t1 o0]
          by_cases o11 : fOpcode img = 11
          · simp only [o11, if_true]; exact qltlv_norm c g w st img hk
          · simp only [o11, if_false]
            by_cases o8 : fOpcode img = 8
            · simp only [o8, if_true]
              refine ⟨rfl, rfl, rfl, ?_⟩
              apply norm_eq_of <;> simp [f1, f2, f4, f5, f7]
            · simp only [o8, if_false]; exact ⟨rfl, rfl, rfl, (norm_idem st).symm⟩
        · rw [dispatch_other c g w st img t0 t1, dispatch_other c g w (norm st) img t0 t1]
          exact ⟨rfl, rfl, rfl, (norm_idem st).symm⟩

/-- after a topology Reset the record is, up to dead fields, the record of a freshly started responder -/
theorem reset_is_fresh (st : St) : norm (resetSt st) = norm {} := by
  unfold norm resetSt; simp

/-- bisimulation: states equal up to dead fields react identically and stay equal up to dead fields -/
theorem bisim (c : Cfg) (g : Glob) (w : World) (s1 s2 : St) (img : List Nat) (h : norm s1 = norm s2) :
    SameReaction (parseFrameSt c g w s1 img) (parseFrameSt c g w s2 img) := by
  have h1 := dead_fields c g w s1 img
  have h2 := dead_fields c g w s2 img
  rw [h] at h1
  exact ⟨h1.1.trans h2.1.symm, h1.2.1.trans h2.2.1.symm, h1.2.2.1.trans h2.2.2.1.symm, h1.2.2.2.trans h2.2.2.2.symm⟩

/-- histories: the reactions (port calls per frame) to a continuation -/
def reactions (c : Cfg) (g : Glob) : World → St → List (List Nat) → List (List Fx)
  | _, _, [] => []
  | w, st, img :: rest =>
    let o := parseFrameSt c g w st img
    o.fx :: reactions c g o.w o.st rest

theorem reactions_bisim (c : Cfg) (g : Glob) (cont : List (List Nat)) (w : World) (s1 s2 : St) (h : norm s1 = norm s2) :
    reactions c g w s1 cont = reactions c g w s2 cont := by
  induction cont generalizing w s1 s2 with
  | nil => rfl
  | cons img rest ih =>
    have hb := bisim c g w s1 s2 img h
    simp only [reactions]
    rw [hb.1, hb.2.1]
    congr 1
    exact ih _ _ _ hb.2.2.2

/-- C09: after ANY state (reached by any history) and a topology Reset, the reaction to ANY continuation is,
    frame for frame and byte for byte, that of a freshly started responder with the same configuration (same
    allocator behaviour on both sides) -/
theorem reset_then_like_fresh (c : Cfg) (g : Glob) (w : World) (st : St) (cont : List (List Nat)) :
    reactions c g w (resetSt st) cont = reactions c g w {} cont :=
  reactions_bisim c g cont w _ _ (reset_is_fresh st)

/-- non-vacuity: a state full of history — known mapper, observations, generations, cached icon -/
def dirty : St :=
  { sees := [{ typ := 1, realSrc := [1,1,1,1,1,1], src := [2,2,2,2,2,2], dst := [3,3,3,3,3,3] }], count := 1,
    mapperReal := [9,9,9,9,9,9], mapperApparent := [8,8,8,8,8,8], known := true, seq := 77, genTopo := 5, genQuick := 6,
    icon := some [1, 2, 3] }
example : norm (resetSt dirty) = norm {} := by decide

end LLTD.C09
