/-
  C06 — An Emit is executed descriptor by descriptor and then acknowledged.
-/
import LLTD.Lemmas.Obs
import LLTD.Lemmas.Safe

namespace LLTD.C06
open LLTD LLTD.Spec

/-- no platform fault is scheduled -/
structure NoFault (w : World) : Prop where
  m  : w.failMalloc = []
  s  : w.failSend = []
  ma : w.failMallocAll = false
  sa : w.failSendAll = false

theorem malloc_nf (w : World) (n : Nat) (h : NoFault w) : (w.malloc n).2 = true ∧ NoFault (w.malloc n).1 := by
  unfold World.malloc
  simp only [h.ma, h.m, List.contains_nil, Bool.or_self, Bool.false_eq_true, if_false]
  refine ⟨trivial, ?_⟩
  constructor <;> simp [h.m, h.s, h.ma, h.sa]

theorem send_nf (w : World) (h : NoFault w) : w.send.2 = true ∧ NoFault w.send.1 := by
  unfold World.send
  simp only [h.sa, h.s, List.contains_nil, Bool.or_self, Bool.not_false]
  refine ⟨trivial, ?_⟩
  constructor <;> simp [h.m, h.s, h.ma, h.sa]

theorem free_nf (w : World) (n : Nat) (h : NoFault w) : NoFault (w.free n) := by
  unfold World.free; constructor <;> simp [h.m, h.s, h.ma, h.sa]

/-- the frames sendProbeMsg builds -/
def probeFrame (c : Cfg) (src dst : Mac) (ty : Nat) : List Nat :=
  lltdHeader 0 dst src dst c.ourMac 0 (if ty = 1 then X.opProbe else X.opTrain) X.tosDiscovery
def ackFrame (c : Cfg) (st : St) : List Nat :=
  lltdHeader 0 st.mapperApparent c.ourMac st.mapperReal c.ourMac st.seq X.opAck X.tosDiscovery

/-- without faults sendProbeMsg waits the pause, sends the Probe/Train, and (for the last descriptor) the ACK -/
theorem sendProbeMsg_nf (c : Cfg) (st : St) (w : World) (fx : List Fx) (src dst : Mac) (pause ty : Nat) (ack : Bool) (h : NoFault w) :
    (sendProbeMsg c st w fx src dst pause ty ack).2 =
      fx ++ [Fx.sleep pause, Fx.send true c.idx (probeFrame c src dst ty)] ++ (if ack then [Fx.send true c.idx (ackFrame c st)] else []) ∧
    NoFault (sendProbeMsg c st w fx src dst pause ty ack).1 := by
  obtain ⟨hm, hw1⟩ := malloc_nf w X.sizeofDemux h
  obtain ⟨hs1, hw2⟩ := send_nf _ hw1
  obtain ⟨hs2, hw3⟩ := send_nf _ hw2
  unfold sendProbeMsg
  simp only [hm, Bool.not_true, Bool.false_eq_true, if_false, sendFx, hs1]
  cases ack with
  | true =>
    simp only [if_true, hs2]
    exact ⟨by simp [probeFrame, ackFrame], free_nf _ _ hw3⟩
  | false =>
    simp only [Bool.false_eq_true, if_false]
    exact ⟨by simp [probeFrame], free_nf _ _ hw2⟩

/-- descriptor `i` of the received Emit, as the loop reads it -/
structure DescAt (img : List Nat) (i : Nat) where
  ty : Nat := byteAt img (34 + 14 * i)
  pause : Nat := byteAt img (35 + 14 * i)
  src : Mac := slice img (36 + 14 * i) 6
  dst : Mac := slice img (42 + 14 * i) 6

def descFx (c : Cfg) (st : St) (img : List Nat) (n i : Nat) : List Fx :=
  [Fx.sleep (byteAt img (35 + 14 * i)), Fx.send true c.idx (probeFrame c (slice img (36 + 14 * i) 6) (slice img (42 + 14 * i) 6) (byteAt img (34 + 14 * i)))] ++
  (if i + 1 = n then [Fx.send true c.idx (ackFrame c st)] else [])

/-- the descriptor loop, fault-free, all kinds 0/1, everything inside the image:
    sleep + Probe/Train per descriptor in order, the ACK after the last one -/
theorem emitLoop_exact (c : Cfg) (st : St) (img : List Nat) (n : Nat) (hfit : 34 + 14 * n ≤ img.length) (hn : 14 * n < 65536)
    (hk : ∀ i < n, byteAt img (34 + 14 * i) ≤ 1) :
    ∀ (k i : Nat) (w : World) (fx : List Fx), i + k = n → NoFault w →
      (emitLoop c st img n k i w fx).2.1 = fx ++ ((List.range' i k).flatMap (descFx c st img n)) ∧
      (emitLoop c st img n k i w fx).2.2 = none := by
  intro k
  induction k with
  | zero => intro i w fx _ _; simp [emitLoop]
  | succ k ih =>
    intro i w fx hik hw
    have hlt : i * X.sizeofEmitee % u16 = 14 * i := by
      simp only [X.sizeofEmitee_val]; rw [Nat.mod_eq_of_lt (by unfold u16; omega)]; omega
    have hrd : rdOk img (X.sizeofDemux + X.sizeofEmitHdr + i * X.sizeofEmitee % u16) X.sizeofEmitee = true := by
      rw [hlt]; apply rdOk_of_le; simp only [X.sizeofDemux_val, X.sizeofEmitHdr_val, X.sizeofEmitee_val]; omega
    rw [emitLoop]
    simp only [hrd, Bool.not_true, Bool.false_eq_true, if_false]
    rw [hlt]
    have hoff : X.sizeofDemux + X.sizeofEmitHdr + 14 * i = 34 + 14 * i := by simp only [X.sizeofDemux_val, X.sizeofEmitHdr_val]
    simp only [hoff, X.offEmiteeType_val, X.offEmiteePause_val, X.offEmiteeSrc_val, X.offEmiteeDst_val, Nat.add_zero]
    have hty := hk i (by omega)
    have hty' : byteAt img (34 + 14 * i) = 1 ∨ byteAt img (34 + 14 * i) = 0 := by omega
    simp only [hty', if_true]
    have hsp := sendProbeMsg_nf c st w fx (slice img (34 + 14 * i + 2) 6) (slice img (34 + 14 * i + 8) 6)
      (byteAt img (34 + 14 * i + 1)) (byteAt img (34 + 14 * i)) (decide (i + 1 = n)) hw
    obtain ⟨hfx, hw'⟩ := hsp
    have := ih (i + 1) _ (sendProbeMsg c st w fx (slice img (34 + 14 * i + 2) 6) (slice img (34 + 14 * i + 8) 6)
      (byteAt img (34 + 14 * i + 1)) (byteAt img (34 + 14 * i)) (decide (i + 1 = n))).2 (by omega) hw'
    refine ⟨?_, this.2⟩
    rw [this.1, hfx, List.range'_succ, List.flatMap_cons]
    have e1 : 34 + 14 * i + 1 = 35 + 14 * i := by omega
    have e2 : 34 + 14 * i + 2 = 36 + 14 * i := by omega
    have e8 : 34 + 14 * i + 8 = 42 + 14 * i := by omega
    simp only [descFx, e1, e2, e8, decide_eq_true_eq, List.append_assoc]

/-- THE EMIT THEOREM (model level): n ≥ 1 descriptors that fit, kinds 0/1, no faults ⇒ exactly the specified
    sequence of port calls, in descriptor order, ACK last -/
theorem emit_exact (c : Cfg) (w : World) (st : St) (img : List Nat) (hc : CfgOk c) (hmtu : c.failMtu = false)
    (hlen : c.mtu ≤ img.length) (hw : NoFault w)
    (hfit : 34 + 14 * unbe (slice img 32 2) ≤ c.mtu) (hk : ∀ i < unbe (slice img 32 2), byteAt img (34 + 14 * i) ≤ 1) :
    let n := unbe (slice img 32 2)
    let st' := setActiveMapper { st with seq := fSeq img } (fRealSrc img) (fEthSrc img)
    (parseEmit c w st img).fx = (List.range n).flatMap (descFx c st' img n) ∧ (parseEmit c w st img).fault = none := by
  have hlo := hc.mtuLo
  have hhi := hc.mtuHi
  simp only []
  unfold parseEmit
  have hg : ¬ (c.failMtu = true ∨ c.mtu < X.sizeofDemux + X.sizeofEmitHdr) := by
    simp only [hmtu, X.sizeofDemux_val, X.sizeofEmitHdr_val]; intro h; rcases h with h | h
    · exact Bool.noConfusion h
    · omega
  simp only [if_neg hg]
  have hrd : rdOk img 32 2 = true := by apply rdOk_of_le; omega
  simp only [X.sizeofDemux_val, X.sizeofEmitHdr_val, X.sizeofEmitee_val, hrd, Bool.not_true, Bool.false_eq_true, if_false]
  have hcl : ¬ unbe (slice img 32 2) > (c.mtu - 32 - 2) / 14 := by
    intro hgt
    have := Nat.div_mul_le_self (c.mtu - 32 - 2) 14
    have : (c.mtu - 32 - 2) / 14 + 1 ≤ unbe (slice img 32 2) := hgt
    have h14 : 14 * ((c.mtu - 32 - 2) / 14 + 1) ≤ 14 * unbe (slice img 32 2) := Nat.mul_le_mul_left 14 this
    have := Nat.lt_div_mul_add (a := c.mtu - 32 - 2) (b := 14) (by omega)
    omega
  simp only [if_neg hcl]
  have := emitLoop_exact c (setActiveMapper { st with seq := fSeq img } (fRealSrc img) (fEthSrc img)) img (unbe (slice img 32 2))
    (by omega) (by omega) hk (unbe (slice img 32 2)) 0 w [] (by omega) hw
  rw [this.1, this.2, List.range_eq_range']
  exact ⟨by simp, rfl⟩

/-- the model's Probe/Train and ACK frames are the specified 32-byte frames -/
theorem probeFrame_spec (c : Cfg) (src dst : Mac) (ty : Nat) (hty : ty ≤ 1) :
    probeFrame c src dst ty = probeFrameSpec c.ourMac { kind := ty, pause := 0, src := src, dst := dst } := by
  unfold probeFrame probeFrameSpec lltdHeader
  have : ty = 0 ∨ ty = 1 := by omega
  rcases this with h | h <;> simp [h, be2]

theorem ackFrame_spec (c : Cfg) (st : St) : ackFrame c st = ackFrameSpec c.ourMac st.mapperReal st.mapperApparent st.seq := by
  unfold ackFrame ackFrameSpec lltdHeader
  simp [be2]

/-- the bound clause: whatever count the wire declares, one Emit causes at most (MTU-34)/14 Probe/Train frames + 1 ACK -/
def sendCount (fx : List Fx) : Nat := (fx.filter (fun x => match x with | .send .. => true | _ => false)).length

theorem sendProbeMsg_count (c : Cfg) (st : St) (w : World) (fx : List Fx) (src dst : Mac) (pause ty : Nat) (ack : Bool) :
    sendCount (sendProbeMsg c st w fx src dst pause ty ack).2 ≤ sendCount fx + 1 + (if ack then 1 else 0) := by
  unfold sendProbeMsg
  simp only []
  repeat' split
  all_goals (simp [sendCount, List.filter_append, sendFx]; try omega)

theorem emitLoop_count (c : Cfg) (st : St) (img : List Nat) (n : Nat) :
    ∀ (k i : Nat) (w : World) (fx : List Fx),
      sendCount (emitLoop c st img n k i w fx).2.1 ≤ sendCount fx + k + (if i < n ∧ n ≤ i + k then 1 else 0) := by
  intro k
  induction k with
  | zero => intro i w fx; simp [emitLoop]
  | succ k ih =>
    intro i w fx
    rw [emitLoop]
    simp only []
    split
    · simp only []; omega
    · split
      · generalize hsp : sendProbeMsg c st w fx (slice img (X.sizeofDemux + X.sizeofEmitHdr + i * X.sizeofEmitee % u16 + X.offEmiteeSrc) 6)
          (slice img (X.sizeofDemux + X.sizeofEmitHdr + i * X.sizeofEmitee % u16 + X.offEmiteeDst) 6)
          (byteAt img (X.sizeofDemux + X.sizeofEmitHdr + i * X.sizeofEmitee % u16 + X.offEmiteePause))
          (byteAt img (X.sizeofDemux + X.sizeofEmitHdr + i * X.sizeofEmitee % u16 + X.offEmiteeType)) (decide (i + 1 = n)) = r
        have h1 := sendProbeMsg_count c st w fx (slice img (X.sizeofDemux + X.sizeofEmitHdr + i * X.sizeofEmitee % u16 + X.offEmiteeSrc) 6)
          (slice img (X.sizeofDemux + X.sizeofEmitHdr + i * X.sizeofEmitee % u16 + X.offEmiteeDst) 6)
          (byteAt img (X.sizeofDemux + X.sizeofEmitHdr + i * X.sizeofEmitee % u16 + X.offEmiteePause))
          (byteAt img (X.sizeofDemux + X.sizeofEmitHdr + i * X.sizeofEmitee % u16 + X.offEmiteeType)) (decide (i + 1 = n))
        rw [hsp] at h1
        have h2 := ih (i + 1) r.1 r.2
        generalize sendCount (emitLoop c st img n k (i + 1) r.1 r.2).2.1 = total at h2 ⊢
        generalize sendCount r.2 = mid at h1 h2
        generalize sendCount fx = base at h1 ⊢
        by_cases hl : i + 1 = n
        · have e1 : (if decide (i + 1 = n) = true then 1 else 0) = 1 := by simp [hl]
          have e2 : (if i + 1 < n ∧ n ≤ i + 1 + k then 1 else 0) = 0 := by
            have : ¬ (i + 1 < n ∧ n ≤ i + 1 + k) := by omega
            simp [this]
          have e3 : (if i < n ∧ n ≤ i + (k + 1) then 1 else 0) = 1 := by
            have : (i < n ∧ n ≤ i + (k + 1)) := by omega
            simp [this]
          rw [e1] at h1; rw [e2] at h2; rw [e3]; omega
        · have e1 : (if decide (i + 1 = n) = true then 1 else 0) = 0 := by simp [hl]
          have e23 : (if i + 1 < n ∧ n ≤ i + 1 + k then 1 else 0) = (if i < n ∧ n ≤ i + (k + 1) then 1 else 0) := by
            by_cases hc : i + 1 < n ∧ n ≤ i + 1 + k
            · have : (i < n ∧ n ≤ i + (k + 1)) := by omega
              simp [hc, this]
            · have : ¬ (i < n ∧ n ≤ i + (k + 1)) := by omega
              simp [hc, this]
          rw [e1] at h1; rw [e23] at h2; omega
      · have h2 := ih (i + 1) w fx
        generalize sendCount (emitLoop c st img n k (i + 1) w fx).2.1 = total at h2 ⊢
        by_cases hc : i + 1 < n ∧ n ≤ i + 1 + k
        · have : (i < n ∧ n ≤ i + (k + 1)) := by omega
          simp only [hc, and_self, if_true] at h2
          simp only [this, and_self, if_true]; omega
        · simp only [hc, if_false] at h2
          split <;> omega

theorem emit_bound (c : Cfg) (w : World) (st : St) (img : List Nat) :
    sendCount (parseEmit c w st img).fx ≤ (c.mtu - 34) / 14 + 1 := by
  unfold parseEmit
  simp only []
  split
  · simp [sendCount]
  · split
    · simp [sendCount]
    · simp only [X.sizeofDemux_val, X.sizeofEmitHdr_val, X.sizeofEmitee_val]
      generalize hn : (if unbe (slice img 32 2) > (c.mtu - 32 - 2) / 14 then (c.mtu - 32 - 2) / 14 else unbe (slice img 32 2)) = n
      have hle : n ≤ (c.mtu - 34) / 14 := by
        have e : c.mtu - 32 - 2 = c.mtu - 34 := by omega
        rw [← hn, e]; split <;> omega
      have hcount := emitLoop_count c (setActiveMapper { st with seq := fSeq img } (fRealSrc img) (fEthSrc img)) img n n 0 w []
      have h0 : sendCount ([] : List Fx) = 0 := rfl
      rw [h0] at hcount
      refine Nat.le_trans hcount ?_
      split <;> omega

/-- non-vacuity: a fault-free world exists -/
example : NoFault {} := ⟨rfl, rfl, rfl, rfl⟩

end LLTD.C06
