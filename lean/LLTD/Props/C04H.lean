/-
  C04 — the history form, for EVERY fault schedule: at every position of every history, every Hello the model
  transmits decodes (independent decoder) to exactly the interface's attributes — and nothing but the answer to a
  Discover ever decodes as a Hello.
-/
import LLTD.Props.C04
import LLTD.Props.C03
import LLTD.Props.C02H

namespace LLTD.C04H
open LLTD LLTD.Spec

theorem step_holds (c : Cfg) (g : Glob) (w : World) (st : St) (img : List Nat)
    (hc : CfgOk c) (hr : C04.CfgRange c) (hi : St.Inv st) (him : ImgOk img) :
    holdsC04Rx (obsOf c g img (parseFrameSt c g w st img).fx) = true := by
  by_cases hd : isDiscover img = true
  · obtain ⟨hl, htos, hop⟩ := (isDiscover_iff img).mp hd
    by_cases hacc : mapperMatches st (LLTD.fRealSrc img) = true
    · by_cases hmal : (w.malloc c.mtuEff).2 = true
      · exact C04.bridge c g w st img hc hr hd hacc hmal
      · simp only [Bool.not_eq_true] at hmal
        have hfx : sends (obsOf c g img (parseFrameSt c g w st img).fx).fx = [] := by
          rw [parseFrameSt_discover c g w st img htos hop, if_pos hacc]
          unfold obsOf
          split <;> simp [answerHello_nomem c g w _ img hmal, sends, toObs]
        unfold holdsC04Rx helloReplies
        simp [hfx]
    · simp only [Bool.not_eq_true] at hacc
      rw [C03.refused_discover_silent c g w st img hd hacc]
      unfold holdsC04Rx helloReplies
      simp [obsOf, sends]
  · have hq : ¬ ((LLTD.fTos img = 0 ∨ LLTD.fTos img = 1) ∧ LLTD.fOpcode img = 0) := by
      intro h; exact hd ((isDiscover_iff img).mpr ⟨him.len, h.1, h.2⟩)
    have hnone := no_hello c g w st img hc hi him hq
    unfold holdsC04Rx helloReplies
    have hfx : (obsOf c g img (parseFrameSt c g w st img).fx).fx = (parseFrameSt c g w st img).fx.map toObs := rfl
    rw [hfx, sends_toObs, List.filterMap_eq_nil_iff.mpr hnone]
    rfl

/-- THE HISTORY THEOREM: every frame history, every fault schedule -/
theorem history (c : Cfg) (g : Glob) (hc : CfgOk c) (hr : C04.CfgRange c) :
    ∀ (imgs : List (List Nat)) (w : World) (st : St), (∀ img ∈ imgs, ImgOk img) → St.Inv st →
      holdsC04 (C05.runObs c g w st imgs) = true := by
  intro imgs
  induction imgs with
  | nil => intro _ _ _ _; rfl
  | cons img rest ih =>
    intro w st himgs hi
    have him := himgs img (by simp)
    simp only [C05.runObs, holdsC04, List.all_cons, Bool.and_eq_true]
    exact ⟨step_holds c g w st img hc hr hi him, ih _ _ (fun i h => himgs i (by simp [h])) (parseFrameSt_inv c g w st img hi him)⟩


/-- with the attributes changing from frame to frame (every Hello reflects the attributes current when it is built), every fault schedule -/
theorem history_varying :
    ∀ (items : List (Cfg × Glob × List Nat)) (w : World) (st : St),
      (∀ it ∈ items, CfgOk it.1 ∧ C04.CfgRange it.1 ∧ ImgOk it.2.2) → St.Inv st → holdsC04 (C05.runObsV w st items) = true := by
  intro items
  induction items with
  | nil => intro _ _ _ _; rfl
  | cons it rest ih =>
    intro w st hitems hi
    obtain ⟨c, g, img⟩ := it
    obtain ⟨hc, hr, him⟩ := hitems (c, g, img) (by simp)
    simp only [C05.runObsV, holdsC04, List.all_cons, Bool.and_eq_true]
    exact ⟨step_holds c g w st img hc hr hi him, ih _ _ (fun i h => hitems i (by simp [h])) (parseFrameSt_inv c g w st img hi him)⟩

end LLTD.C04H
