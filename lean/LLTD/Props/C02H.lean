/-
  C02 — the history form, for EVERY fault schedule.  Whatever frames arrive, whatever the allocator and the
  transmit path do, every frame the model transmits passes the independent well-formedness decoder for its type
  and fits the MTU, frames are transmitted only in reaction to a Discover / Emit / Query / QueryLargeTlv of a
  discovery service, at most one per request, and an Emit causes at most min(declared, (MTU−34)/14) + 1.
  (Determinism clause: the model has no input carrying the content of fresh memory; the C side is covered by
  the two-poison correspondence run.)
-/
import LLTD.Props.C02
import LLTD.Props.C06H
import LLTD.Props.C08H

namespace LLTD.C02H
open LLTD LLTD.Spec

/-! ## Emit: every transmitted frame is a Probe/Train with 6-byte addresses from inside the image, or the ACK -/

theorem sendProbeMsg_P (P : List Nat → Prop) (c : Cfg) (st : St) (w : World) (fx : List Fx) (src dst : Mac) (pause ty : Nat) (ack : Bool)
    (hp : P (C06.probeFrame c src dst ty)) (hk : P (C06.ackFrame c st)) (h : ∀ f ∈ sentFrames fx, P f) :
    ∀ f ∈ sentFrames (sendProbeMsg c st w fx src dst pause ty ack).2, P f := by
  have fin2 : ∀ f, f ∈ sentFrames (fx ++ [Fx.sleep pause] ++
      [Fx.send (w.malloc X.sizeofDemux).1.send.2 c.idx (lltdHeader 0 dst src dst c.ourMac 0 (if ty = 1 then X.opProbe else X.opTrain) X.tosDiscovery)]) →
      P f := by
    intro f hf
    simp only [sentFrames_append, sentFrames_sleep, sentFrames_send, List.mem_append, List.mem_singleton, List.append_nil] at hf
    rcases hf with hf | hf
    · exact h f hf
    · rw [hf]; exact hp
  unfold sendProbeMsg
  simp only [sendFx]
  by_cases hmal : (w.malloc X.sizeofDemux).2 = true
  · simp only [hmal, Bool.not_true, Bool.false_eq_true, if_false]
    by_cases hs1 : (w.malloc X.sizeofDemux).1.send.2 = true
    · simp only [hs1, Bool.not_true, Bool.false_eq_true, if_false]
      cases ack with
      | false => simp only [Bool.false_eq_true, if_false]; rw [← hs1]; exact fin2
      | true =>
        simp only [if_true]
        intro f hf
        rw [sentFrames_append] at hf
        simp only [sentFrames_send, List.mem_append, List.mem_singleton] at hf
        rcases hf with hf | hf
        · rw [← hs1] at hf; exact fin2 f hf
        · rw [hf]; exact hk
    · simp only [Bool.not_eq_true] at hs1
      simp only [hs1, Bool.not_false, if_true]
      rw [← hs1]; exact fin2
  · simp only [Bool.not_eq_true] at hmal
    simp only [hmal, Bool.not_false, if_true]
    exact h

theorem emitLoop_P (P : List Nat → Prop) (c : Cfg) (st : St) (img : List Nat) (n : Nat)
    (hp : ∀ (src dst : Mac) (ty : Nat), src.length = 6 → dst.length = 6 → P (C06.probeFrame c src dst ty)) (hk : P (C06.ackFrame c st)) :
    ∀ (k i : Nat) (w : World) (fx : List Fx), (∀ f ∈ sentFrames fx, P f) →
      ∀ f ∈ sentFrames (emitLoop c st img n k i w fx).2.1, P f := by
  intro k
  induction k with
  | zero => intro i w fx h; simpa [emitLoop] using h
  | succ k ih =>
    intro i w fx h
    rw [emitLoop]
    simp only []
    split
    · exact h
    · next hrd =>
      have hrd' : X.sizeofDemux + X.sizeofEmitHdr + i * X.sizeofEmitee % u16 + X.sizeofEmitee ≤ img.length := by
        simp only [rdOk, Bool.not_eq_true', decide_eq_false_iff_not, Decidable.not_not, Bool.not_eq_true] at hrd
        simpa [rdOk] using hrd
      split
      · refine ih _ _ _ (sendProbeMsg_P P c st w fx _ _ _ _ _ (hp _ _ _ ?_ ?_) hk h)
        · apply slice_length; simp only [X.sizeofEmitee_val, X.offEmiteeSrc_val] at hrd' ⊢; omega
        · apply slice_length; simp only [X.sizeofEmitee_val, X.offEmiteeDst_val] at hrd' ⊢; omega
      · exact ih _ _ _ h

theorem parseEmit_wf (c : Cfg) (w : World) (st : St) (img : List Nat) (hc : CfgOk c) (hmac : c.failMac = false) (hi : St.Inv st) (him : ImgOk img) :
    ∀ f ∈ sentFrames (parseEmit c w st img).fx, wellFormed c.mac c.mtu f = true := by
  have h1 := setActive_inv { st with seq := LLTD.fSeq img } img (seq_inv st _ hi (fSeq_lt img him)) him
  unfold parseEmit
  simp only []
  split
  · intro f hf; simp at hf
  · split
    · intro f hf; simp at hf
    · exact emitLoop_P (fun f => wellFormed c.mac c.mtu f = true) c _ img _
        (fun src dst ty h1 h2 => C02.probe_wellFormed c src dst ty hc hmac h1 h2) (C02.ack_wellFormed c _ hc hmac h1)
        _ 0 w [] (by intro f hf; simp at hf)

/-! ## Query -/

theorem parseQuery_nomem (c : Cfg) (w : World) (st : St) (img : List Nat) (h : (w.malloc c.mtuEff).2 = false) :
    (parseQuery c w st img).fx = [] := by
  unfold parseQuery; simp [h]

theorem mtuEff_eq (c : Cfg) (hc : CfgOk c) (hm : c.failMtu = false) : c.mtuEff = c.mtu := by
  have := hc.mtuLo
  unfold Cfg.mtuEff; simp [hm]; omega

theorem parseQuery_wf (c : Cfg) (w : World) (st : St) (img : List Nat) (hc : CfgOk c) (hm : c.failMtu = false) (hmac : c.failMac = false)
    (hi : St.Inv st) (him : ImgOk img) :
    ∀ f ∈ sentFrames (parseQuery c w st img).fx, wellFormed c.mac c.mtu f = true := by
  by_cases hmal : (w.malloc c.mtuEff).2 = true
  · rw [(C07.query c w st img hc hi hmal).1]
    generalize hn : min st.sees.length (queryMaxDescs c.mtuEff) = n
    intro f hf
    simp only [sentFrames_send, List.mem_singleton] at hf
    rw [hf]
    have hlen : (st.sees.take n).length = n := by rw [List.length_take]; omega
    have hfit := C07.query_fits c.mtuEff n (by omega) (by have := mtuEff_ge c hc; omega)
    rw [mtuEff_eq c hc hm] at hfit
    exact C02.query_wellFormed c img _ n _ (st.sees.take n) hc hmac him
      (fun o ho => hi.obs o (List.mem_of_mem_take ho)) hlen hfit (by have := hi.cap; omega)
  · simp only [Bool.not_eq_true] at hmal
    rw [parseQuery_nomem c w st img hmal]
    intro f hf; simp at hf

/-! ## QueryLargeTlv -/

theorem sendLarge_fx (c : Cfg) (w : World) (st : St) (img : List Nat) (dm : Option (List Nat)) (off : Nat)
    (hc : CfgOk c) (hm : c.failMtu = false) :
    (sendLargeTlvResponse c w st img dm off).fx = [] ∨
    ∃ ok, (sendLargeTlvResponse c w st img dm off).fx =
      [Fx.send ok c.idx (largeFrame c (respDest img) st.seq (respFields (c.mtu - 34) (some (dm.getD [])) off).2
        (slice (dm.getD []) off (respFields (c.mtu - 34) (some (dm.getD [])) off).1))] := by
  have hlo := hc.mtuLo
  have hhi := hc.mtuHi
  have hmtu := mtuEff_eq c hc hm
  have hp : (if c.mtuEff > X.sizeofDemux + X.sizeofQltlvResp then (c.mtuEff - (X.sizeofDemux + X.sizeofQltlvResp)) % u16 else 0) = c.mtu - 34 := by
    rw [hmtu]; simp only [X.sizeofDemux_val, X.sizeofQltlvResp_val]
    rw [if_pos (by omega), Nat.mod_eq_of_lt (by unfold u16; omega)]
  unfold sendLargeTlvResponse
  simp only [hp]
  by_cases hmal : (w.malloc (X.sizeofDemux + X.sizeofQltlvResp + (c.mtu - 34))).2 = true
  · right
    have hb := respFields_bounds (c.mtu - 34) dm off
    have h1 : ¬((respFields (c.mtu - 34) dm off).1 > 0 ∧ off + (respFields (c.mtu - 34) dm off).1 > optLen dm) := by
      intro h; have := hb.2 h.1; omega
    have h2 : ¬(X.sizeofDemux + X.sizeofQltlvResp + (respFields (c.mtu - 34) dm off).1 > X.sizeofDemux + X.sizeofQltlvResp + (c.mtu - 34)) := by
      have := hb.1; omega
    simp only [hmal, Bool.not_true, Bool.false_eq_true, if_false, if_neg h1, if_neg h2, sendFx, ← C08H.respFields_getD]
    refine ⟨(w.malloc (X.sizeofDemux + X.sizeofQltlvResp + (c.mtu - 34))).1.send.2, ?_⟩
    cases dm <;> rfl
  · left
    simp only [Bool.not_eq_true] at hmal
    simp only [hmal, Bool.not_false, if_true]

theorem sendLarge_wf (c : Cfg) (w : World) (st : St) (img : List Nat) (dm : Option (List Nat)) (off : Nat)
    (hc : CfgOk c) (hm : c.failMtu = false) (hmac : c.failMac = false) (him : ImgOk img) :
    ∀ f ∈ sentFrames (sendLargeTlvResponse c w st img dm off).fx, wellFormed c.mac c.mtu f = true := by
  have hlo := hc.mtuLo
  have hhi := hc.mtuHi
  rcases sendLarge_fx c w st img dm off hc hm with h | ⟨ok, h⟩
  · rw [h]; intro f hf; simp at hf
  · rw [h]
    intro f hf
    simp only [sentFrames_send, List.mem_singleton] at hf
    rw [hf]
    generalize dm.getD [] = d
    have hdest : (respDest img).length = 6 := C02.respDest_len img him
    have hfs := C08.fields_spec (c.mtu - 34) (by omega) d off
    simp only [] at hfs
    obtain ⟨f1, f2, f3, f4⟩ := hfs
    have hpl : (slice d off (respFields (c.mtu - 34) (some d) off).1).length = (respFields (c.mtu - 34) (some d) off).2 % 16384 := by
      unfold slice; rw [f4, f2, ← f1]
    refine C02.large_wellFormed c _ _ _ _ hc hmac hdest (C08H.respFields_lt _ _ _) hpl ?_
    rw [hpl, f2]
    have := (respFields_bounds (c.mtu - 34) (some d) off).1
    omega

theorem qltlv_wf (c : Cfg) (g : Glob) (w : World) (st : St) (img : List Nat)
    (hc : CfgOk c) (hm : c.failMtu = false) (hmac : c.failMac = false) (him : ImgOk img) :
    ∀ f ∈ sentFrames (parseQueryLargeTlv c g w st img).fx, wellFormed c.mac c.mtu f = true := by
  unfold parseQueryLargeTlv qltlvIcon qltlvFname qltlvHwid
  simp only []
  repeat' split
  all_goals first
    | (intro f hf; simp at hf; done)
    | exact sendLarge_wf _ _ _ _ _ _ hc hm hmac him
    | (simp only []; exact sendLarge_wf _ _ _ _ _ _ hc hm hmac him)


/-! ## All frames of one reaction -/

theorem all_wf (c : Cfg) (g : Glob) (w : World) (st : St) (img : List Nat) (hc : CfgOk c) (hm : c.failMtu = false) (hmac : c.failMac = false)
    (hi : St.Inv st) (him : ImgOk img) :
    ∀ f ∈ sentFrames (parseFrameSt c g w st img).fx, wellFormed c.mac c.mtu f = true := by
  have hhello : ∀ (st' : St) (w' : World) f, f ∈ sentFrames (answerHello c g w' st' img).fx → wellFormed c.mac c.mtu f = true := by
    intro st' w' f hf
    rw [answerHello_class c g w' st' img f hf]
    exact C02.hello_wellFormed c g _ _ _ _ hc hmac (fRealSrc_len img him) (fEthSrc_len img him)
  by_cases o0 : LLTD.fOpcode img = 0
  · by_cases t01 : LLTD.fTos img = 0 ∨ LLTD.fTos img = 1
    · rw [parseFrameSt_discover c g w st img t01 o0]
      split
      · split
        · intro f hf
          have : f ∈ sentFrames (answerHello c g w (preStep st img) img).fx := by simpa [sentFrames] using hf
          exact hhello _ _ f this
        · exact hhello _ _
      · intro f hf; simp at hf
    · have h0 : LLTD.fTos img ≠ 0 := fun e => t01 (Or.inl e)
      have h1 : LLTD.fTos img ≠ 1 := fun e => t01 (Or.inr e)
      rw [dispatch_other c g w st img h0 h1]
      intro f hf; simp at hf
  · by_cases t0 : LLTD.fTos img = 0
    · rw [dispatch_tos0 c g w st img t0 o0]
      split
      · exact parseEmit_wf c w st img hc hmac hi him
      · split
        · rw [parseProbe_nofx]; intro f hf; simp at hf
        · split
          · exact parseQuery_wf c w st img hc hm hmac hi him
          · split
            · exact qltlv_wf c g w st img hc hm hmac him
            · split <;> (intro f hf; simp at hf)
    · by_cases t1 : LLTD.fTos img = 1
      · rw [dispatch_tos1 c g w st img t1 o0]
        split
        · exact qltlv_wf c g w st img hc hm hmac him
        · split <;> (intro f hf; simp at hf)
      · rw [dispatch_other c g w st img t0 t1]
        intro f hf; simp at hf

/-- the count clause for an Emit: at most min(declared, (MTU−34)/14) Probe/Train frames and one ACK -/
theorem emit_count (c : Cfg) (w : World) (st : St) (img : List Nat) :
    C06.sendCount (parseEmit c w st img).fx ≤ min (unbe (slice img 32 2)) ((c.mtu - 34) / 14) + 1 := by
  unfold parseEmit
  simp only []
  split
  · simp [C06.sendCount]
  · split
    · simp [C06.sendCount]
    · simp only [X.sizeofDemux_val, X.sizeofEmitHdr_val, X.sizeofEmitee_val]
      generalize hn : (if unbe (slice img 32 2) > (c.mtu - 32 - 2) / 14 then (c.mtu - 32 - 2) / 14 else unbe (slice img 32 2)) = n
      have hle : n ≤ min (unbe (slice img 32 2)) ((c.mtu - 34) / 14) := by
        have e : c.mtu - 32 - 2 = c.mtu - 34 := by omega
        rw [← hn, e]; split <;> omega
      have hcount := C06.emitLoop_count c (setActiveMapper { st with seq := LLTD.fSeq img } (LLTD.fRealSrc img) (LLTD.fEthSrc img)) img n n 0 w []
      have h0 : C06.sendCount ([] : List Fx) = 0 := rfl
      rw [h0] at hcount
      refine Nat.le_trans hcount ?_
      split <;> omega

theorem isRequest_iff (img : List Nat) (h : 36 ≤ img.length) :
    isRequest img = true ↔
      ((LLTD.fTos img = 0 ∧ (LLTD.fOpcode img = 0 ∨ LLTD.fOpcode img = 2 ∨ LLTD.fOpcode img = 6 ∨ LLTD.fOpcode img = 11)) ∨
       (LLTD.fTos img = 1 ∧ (LLTD.fOpcode img = 0 ∨ LLTD.fOpcode img = 11))) := by
  have l32 : decide (img.length ≥ 32) = true := decide_eq_true (by omega)
  have l34 : decide (img.length ≥ 34) = true := decide_eq_true (by omega)
  have l36 : decide (img.length ≥ 36) = true := decide_eq_true (by omega)
  simp only [isRequest, isDiscover, isEmit, isQuery, isLarge, l32, l34, l36, spec_fTos, spec_fOp, Bool.true_and, Bool.or_eq_true,
    Bool.and_eq_true, decide_eq_true_eq, beq_iff_eq]
  omega

/-- a frame that is no Emit causes at most one transmit -/
theorem nonemit_count (c : Cfg) (g : Glob) (w : World) (st : St) (img : List Nat) (he : ¬ (LLTD.fTos img = 0 ∧ LLTD.fOpcode img = 2)) :
    C06.sendCount (parseFrameSt c g w st img).fx ≤ 1 := by
  by_cases o0 : LLTD.fOpcode img = 0
  · by_cases t01 : LLTD.fTos img = 0 ∨ LLTD.fTos img = 1
    · rw [parseFrameSt_discover c g w st img t01 o0]
      have hc1 := C02.answerHello_count c g w (preStep st img) img
      by_cases hmm : mapperMatches st (LLTD.fRealSrc img) = true
      · rw [if_pos hmm]
        by_cases ht : LLTD.fTos img = 0
        · rw [if_pos ht]; simpa [C06.sendCount] using hc1
        · rw [if_neg ht]; exact hc1
      · rw [if_neg hmm]; simp [C06.sendCount]
    · have h0 : LLTD.fTos img ≠ 0 := fun e => t01 (Or.inl e)
      have h1 : LLTD.fTos img ≠ 1 := fun e => t01 (Or.inr e)
      rw [dispatch_other c g w st img h0 h1]
      simp [C06.sendCount]
  · by_cases t0 : LLTD.fTos img = 0
    · rw [dispatch_tos0 c g w st img t0 o0]
      have o2 : ¬ LLTD.fOpcode img = 2 := fun e => he ⟨t0, e⟩
      rw [if_neg o2]
      by_cases o34 : LLTD.fOpcode img = 3 ∨ LLTD.fOpcode img = 4
      · rw [if_pos o34, parseProbe_nofx]; simp [C06.sendCount]
      · rw [if_neg o34]
        by_cases o6 : LLTD.fOpcode img = 6
        · rw [if_pos o6]; exact C02.parseQuery_count c w st img
        · rw [if_neg o6]
          by_cases o11 : LLTD.fOpcode img = 11
          · rw [if_pos o11]; exact C02.parseQueryLargeTlv_count c g w st img
          · rw [if_neg o11]; split <;> simp [C06.sendCount]
    · by_cases t1 : LLTD.fTos img = 1
      · rw [dispatch_tos1 c g w st img t1 o0]
        by_cases o11 : LLTD.fOpcode img = 11
        · rw [if_pos o11]; exact C02.parseQueryLargeTlv_count c g w st img
        · rw [if_neg o11]; split <;> simp [C06.sendCount]
      · rw [dispatch_other c g w st img t0 t1]
        simp [C06.sendCount]

/-- one frame, ANY allocator / transmit behaviour -/
theorem step_holds (c : Cfg) (g : Glob) (w : World) (st : St) (img : List Nat)
    (hc : CfgOk c) (hm : c.failMtu = false) (hmac : c.failMac = false) (hi : St.Inv st) (him : ImgOk img) :
    holdsC02Rx (obsOf c g img (parseFrameSt c g w st img).fx) = true := by
  unfold holdsC02Rx
  have hfr : (obsOf c g img (parseFrameSt c g w st img).fx).frame = img := rfl
  have hfx : (obsOf c g img (parseFrameSt c g w st img).fx).fx = (parseFrameSt c g w st img).fx.map toObs := rfl
  have hcf : (obsOf c g img (parseFrameSt c g w st img).fx).cfg = c := rfl
  simp only [hfr, hfx, hcf, sends_toObs]
  have hA : (sentFrames (parseFrameSt c g w st img).fx).all (fun f => wellFormed c.mac c.mtu f) = true :=
    List.all_eq_true.mpr (all_wf c g w st img hc hm hmac hi him)
  have hlen := C06H.sendCount_eq (parseFrameSt c g w st img).fx
  rw [hA, Bool.true_and, Bool.and_eq_true]
  constructor
  · -- solicited
    by_cases hreq : isRequest img = true
    · simp [hreq]
    · have hnr : ¬ ((LLTD.fTos img = 0 ∧ (LLTD.fOpcode img = 0 ∨ LLTD.fOpcode img = 2 ∨ LLTD.fOpcode img = 6 ∨ LLTD.fOpcode img = 11)) ∨
           (LLTD.fTos img = 1 ∧ (LLTD.fOpcode img = 0 ∨ LLTD.fOpcode img = 11))) := fun h => hreq ((isRequest_iff img him.len).mpr h)
      have hsil := C02.unsolicited_silent c g w st img ⟨fun h => hnr (Or.inl h), fun h => hnr (Or.inr h)⟩
      rw [← hlen] at hsil
      have : sentFrames (parseFrameSt c g w st img).fx = [] := List.eq_nil_of_length_eq_zero hsil
      simp [this]
  · -- counts
    rw [hlen]
    by_cases he : isEmit img = true
    · have he' := (C06H.isEmit_iff img him.len).mp he
      rw [if_pos he, decide_eq_true_eq, C06H.fx_emit c g w st img he'.1 he'.2]
      exact emit_count c w st img
    · have he' : ¬ (LLTD.fTos img = 0 ∧ LLTD.fOpcode img = 2) := fun h => he ((C06H.isEmit_iff img him.len).mpr h)
      rw [if_neg he, decide_eq_true_eq]
      exact nonemit_count c g w st img he'

/-- THE HISTORY THEOREM: every frame history, every fault schedule -/
theorem history (c : Cfg) (g : Glob) (hc : CfgOk c) (hm : c.failMtu = false) (hmac : c.failMac = false) :
    ∀ (imgs : List (List Nat)) (w : World) (st : St), (∀ img ∈ imgs, ImgOk img) → St.Inv st →
      holdsC02 (C05.runObs c g w st imgs) = true := by
  intro imgs
  induction imgs with
  | nil => intro _ _ _ _; rfl
  | cons img rest ih =>
    intro w st himgs hi
    have him := himgs img (by simp)
    simp only [C05.runObs, holdsC02, List.all_cons, Bool.and_eq_true]
    exact ⟨step_holds c g w st img hc hm hmac hi him,
      ih _ _ (fun i h => himgs i (by simp [h])) (parseFrameSt_inv c g w st img hi him)⟩

/-- non-vacuity: with every allocation refused nothing is sent, and the predicate still holds -/
example : holdsC02 (C05.runObs { mac := [2, 0, 0, 0, 0, 1], mtu := 576 } {} { failMallocAll := true } {}
    [[255,255,255,255,255,255, 2,0,0,0,0,7, 0x88,0xd9, 1,0,0,0, 255,255,255,255,255,255, 2,0,0,0,0,7, 0,0, 0,1,0,0]]) = true := by
  decide


/-- THE HISTORY THEOREM with the attributes (MTU included) changing from frame to frame, every fault schedule -/
theorem history_varying :
    ∀ (items : List (Cfg × Glob × List Nat)) (w : World) (st : St),
      (∀ it ∈ items, CfgOk it.1 ∧ it.1.failMtu = false ∧ it.1.failMac = false ∧ ImgOk it.2.2) → St.Inv st →
      holdsC02 (C05.runObsV w st items) = true := by
  intro items
  induction items with
  | nil => intro _ _ _ _; rfl
  | cons it rest ih =>
    intro w st hitems hi
    obtain ⟨c, g, img⟩ := it
    obtain ⟨hc, hm, hmac, him⟩ := hitems (c, g, img) (by simp)
    simp only [C05.runObsV, holdsC02, List.all_cons, Bool.and_eq_true]
    exact ⟨step_holds c g w st img hc hm hmac hi him,
      ih _ _ (fun i h => hitems i (by simp [h])) (parseFrameSt_inv c g w st img hi him)⟩

end LLTD.C02H
