/-
  C03 — the history form, for EVERY fault schedule: at every position of every history the predicate `holdsC03Rx`
  holds of the model's reaction — a Discover that is answered at all is answered by exactly one Hello with the
  specified header fields (when the allocator refuses the transmit buffer nothing is sent, which the predicate
  allows: "exactly one" is C05's reply-or-silence clause on a fault-free platform, `C05.history`).
-/
import LLTD.Props.C03
import LLTD.Props.C02H

namespace LLTD.C03H
open LLTD LLTD.Spec

theorem step_holds (c : Cfg) (g : Glob) (w : World) (st : St) (img : List Nat)
    (hc : CfgOk c) (hmac : c.failMac = false) (him : ImgOk img) :
    holdsC03Rx (obsOf c g img (parseFrameSt c g w st img).fx) = true := by
  by_cases hd : isDiscover img = true
  · obtain ⟨hl, htos, hop⟩ := (isDiscover_iff img).mp hd
    by_cases hacc : mapperMatches st (LLTD.fRealSrc img) = true
    · by_cases hmal : (w.malloc c.mtuEff).2 = true
      · exact C03.accepted_discover_answered c g w st img hc hmac him.bytes hd hacc hmal
      · simp only [Bool.not_eq_true] at hmal
        have hfx : sends (obsOf c g img (parseFrameSt c g w st img).fx).fx = [] := by
          rw [parseFrameSt_discover c g w st img htos hop, if_pos hacc]
          unfold obsOf
          split <;> simp [answerHello_nomem c g w _ img hmal, sends, toObs]
        unfold holdsC03Rx
        simp [hfx]
    · simp only [Bool.not_eq_true] at hacc
      rw [C03.refused_discover_silent c g w st img hd hacc]
      unfold holdsC03Rx
      simp [obsOf, sends]
  · unfold holdsC03Rx
    have : isDiscover (obsOf c g img (parseFrameSt c g w st img).fx).frame = false := by simpa [obsOf] using hd
    simp [this]

/-- THE HISTORY THEOREM: every frame history, every fault schedule -/
theorem history (c : Cfg) (g : Glob) (hc : CfgOk c) (hmac : c.failMac = false) :
    ∀ (imgs : List (List Nat)) (w : World) (st : St), (∀ img ∈ imgs, ImgOk img) →
      holdsC03 (C05.runObs c g w st imgs) = true := by
  intro imgs
  induction imgs with
  | nil => intro _ _ _; rfl
  | cons img rest ih =>
    intro w st himgs
    simp only [C05.runObs, holdsC03, List.all_cons, Bool.and_eq_true]
    exact ⟨step_holds c g w st img hc hmac (himgs img (by simp)), ih _ _ (fun i h => himgs i (by simp [h]))⟩


/-- with the attributes changing from frame to frame, every fault schedule -/
theorem history_varying :
    ∀ (items : List (Cfg × Glob × List Nat)) (w : World) (st : St),
      (∀ it ∈ items, CfgOk it.1 ∧ it.1.failMac = false ∧ ImgOk it.2.2) → holdsC03 (C05.runObsV w st items) = true := by
  intro items
  induction items with
  | nil => intro _ _ _; rfl
  | cons it rest ih =>
    intro w st hitems
    obtain ⟨c, g, img⟩ := it
    obtain ⟨hc, hmac, him⟩ := hitems (c, g, img) (by simp)
    simp only [C05.runObsV, holdsC03, List.all_cons, Bool.and_eq_true]
    exact ⟨step_holds c g w st img hc hmac him, ih _ _ (fun i h => hitems i (by simp [h]))⟩

end LLTD.C03H
