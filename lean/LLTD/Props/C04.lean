/-
  C04 — Hello properties faithfully encode the interface's attributes.
-/
import LLTD.Lemmas.Obs
import LLTD.Model.LinuxPort

namespace LLTD.C04
open LLTD LLTD.Spec

/-- value ranges the port API's C types impose on an attribute record -/
structure CfgRange (c : Cfg) : Prop where
  iftype : c.iftype < u32
  speed  : c.speed < u32
  rate   : c.rate < 65536
  mode   : c.mode < 256
  rssiLo : -128 ≤ c.rssi
  rssiHi : c.rssi ≤ 127

theorem unbe_be4 (v : Nat) (h : v < u32) : unbe (be 4 v) = v := unbe_be_of_lt 4 v (by unfold u32 at h; omega)
theorem unbe_be2 (v : Nat) (h : v < 65536) : unbe (be 2 v) = v := unbe_be_of_lt 2 v (by omega)

/-- signed values keep their sign: int8 → int32 two's complement → big-endian → decoded as int32 -/
theorem rssi_roundtrip (r : Int) (hlo : -128 ≤ r) (hhi : r ≤ 127) : toInt32 (be 4 (i8ToU32 r)) = r := by
  unfold toInt32 i8ToU32
  by_cases hn : r < 0
  · simp only [if_pos hn]
    have hlt : 4294967296 - r.natAbs < 256 ^ 4 := by omega
    rw [unbe_be_of_lt 4 _ hlt]
    have : 4294967296 - r.natAbs ≥ 2147483648 := by omega
    simp only [this, if_true]
    omega
  · simp only [if_neg hn]
    have hlt : r.natAbs < 256 ^ 4 := by omega
    rw [unbe_be_of_lt 4 _ hlt]
    have : ¬ r.natAbs ≥ 2147483648 := by omega
    simp only [this, if_false]
    omega

/-- the characteristics word carries the 16 flag bits in its upper half -/
theorem characteristics_word (flags : Nat) : unbe (be 4 ((flags * 65536) % u32)) = (flags % 65536) * 65536 := by
  have hlt : (flags * 65536) % u32 < 256 ^ 4 := by
    have h : (flags * 65536) % u32 < u32 := Nat.mod_lt _ (by decide)
    have e : (256 : Nat) ^ 4 = u32 := by decide
    rw [e]; exact h
  rw [unbe_be_of_lt 4 _ hlt]
  have hu : u32 = 65536 * 65536 := by decide
  rw [hu, Nat.mul_mod_mul_right]

theorem qos_word : unbe (be 4 (((X.qosL2Fwd ||| X.qosPrioTag ||| X.qosVlan) * 65536) % u32)) = 0xE0000000 := by decide
theorem qos_word' : unbe (be 4 (3758096384 % u32)) = 3758096384 := by decide

theorem perf_word : unbe (be 8 1000000) = 1000000 := by decide

/-- decoding the property list of the model's Hello yields exactly the interface's attributes — for every
    attribute record in range, wired or wireless, every getter succeeding or failing independently -/
theorem roundtrip (c : Cfg) (g : Glob) (hr : CfgRange c) : decodeAttrs (helloProps c g) = expectedAttrs c g := by
  have hp := perf_word
  have hch := characteristics_word c.flags
  have hif : unbe (be 4 (if c.failIfType = true then 0 else c.iftype)) = if c.failIfType = true then 0 else c.iftype := by
    split
    · decide
    · exact unbe_be4 _ hr.iftype
  have hsp : unbe (be 4 (if c.failSpeed = true then 0 else c.speed)) = if c.failSpeed = true then 0 else c.speed := by
    split
    · decide
    · exact unbe_be4 _ hr.speed
  have hra : unbe (be 2 (if c.failRate = true then 0 else c.rate)) = if c.failRate = true then 0 else c.rate := by
    split
    · decide
    · exact unbe_be2 _ hr.rate
  have hrs : toInt32 (be 4 (i8ToU32 (if c.failRssi = true then 0 else c.rssi))) = if c.failRssi = true then 0 else c.rssi := by
    split
    · decide
    · exact rssi_roundtrip _ hr.rssiLo hr.rssiHi
  have hmo : unbe [c.mode] = c.mode := by simp [unbe]
  unfold decodeAttrs expectedAttrs helloProps wifiProps tlvGet
  by_cases hw : c.wifi = true <;> by_cases hb : c.failBssid = true <;>
    simp [hw, hb, qos_word', hp, hch, hif, hsp, hra, hrs, hmo, Cfg.ourMac, zeros]

/-- wireless properties appear only on wireless interfaces -/
theorem wifi_gate (c : Cfg) (g : Glob) (hw : c.wifi = false) :
    ∀ p ∈ helloProps c g, p.1 ≠ 4 ∧ p.1 ≠ 5 ∧ p.1 ≠ 6 ∧ p.1 ≠ 9 ∧ p.1 ≠ 13 := by
  intro p hp
  have hm : p.1 ∈ (helloProps c g).map (·.1) := List.mem_map.mpr ⟨p, hp, rfl⟩
  rw [helloProps_types] at hm
  unfold helloTypes at hm
  simp [hw] at hm
  omega

/-- every multi-byte number of the property list is big-endian: the bridge from a whole Hello frame -/
theorem hello_attrs (c : Cfg) (g : Glob) (gen tos : Nat) (cur app : Mac) (hc : CfgOk c) (hr : CfgRange c)
    (h1 : cur.length = 6) (h2 : app.length = 6) :
    (decodeHello (helloFrame c g gen tos cur app)).map (fun h => decodeAttrs h.tlvs) = some (expectedAttrs c g) := by
  rw [decodeHello_helloFrame c g gen tos cur app hc h1 h2]
  simp [roundtrip c g hr]

/-- the property predicate holds of the model's reaction to every accepted Discover -/
theorem bridge (c : Cfg) (g : Glob) (w : World) (st : St) (img : List Nat) (hc : CfgOk c) (hr : CfgRange c)
    (hd : isDiscover img = true) (hacc : mapperMatches st (fRealSrc img) = true) (hm : (w.malloc c.mtuEff).2 = true) :
    holdsC04Rx (obsOf c g img (parseFrameSt c g w st img).fx) = true := by
  obtain ⟨hl, htos, hop⟩ := (isDiscover_iff img).mp hd
  have h1 : (LLTD.fRealSrc img).length = 6 := slice_length _ _ _ (by simp; omega)
  have h2 : (LLTD.fEthSrc img).length = 6 := slice_length _ _ _ (by simp; omega)
  have hfx := (answerHello_fx c g w (preStep st img) img hc hl hm).1
  rw [helloGen_preStep] at hfx
  have hsends : sends (obsOf c g img (parseFrameSt c g w st img).fx).fx =
      [helloFrame c g (LLTD.fDiscGen img) (LLTD.fTos img) (LLTD.fRealSrc img) (LLTD.fEthSrc img)] := by
    rw [parseFrameSt_discover c g w st img htos hop, if_pos hacc]
    unfold obsOf
    split
    · simp only [hfx]; rfl
    · simp only [hfx]; rfl
  unfold holdsC04Rx helloReplies
  rw [hsends]
  simp only [List.filterMap_cons, List.filterMap_nil, decodeHello_helloFrame c g _ _ _ _ hc h1 h2, List.all_cons, List.all_nil, Bool.and_true]
  simp [roundtrip c g hr, obsOf]

/-! ## The Linux platform layer -/

/-- what the Linux port supplies is the interface record without distortion: address, MTU and type copied, link
    speed in units of 100 bit/s, duplex and loopback mapped to their characteristics bits — for every record -/
theorem linux_port (r : LinuxPort.Rec) :
    let s := LinuxPort.supplied r
    s.mac = r.mac ∧ s.mtu = r.mtu ∧ s.ifType = r.ifType ∧ s.speed100 * 100 ≤ r.linkSpeed ∧ r.linkSpeed < (s.speed100 + 1) * 100 ∧
    (s.flags / 0x2000 % 2 = 1 ↔ r.mediumType / 16 % 2 = 1) ∧ (s.flags / 0x800 % 2 = 1 ↔ r.flags / 8 % 2 = 1) ∧
    s.flags % 0x800 = 0 ∧ s.flags < 0x4000 := by
  simp only [LinuxPort.supplied]
  refine ⟨trivial, trivial, trivial, ?_, ?_, ?_, ?_, ?_, ?_⟩
  · exact Nat.div_mul_le_self _ _
  · have := Nat.lt_div_mul_add (a := r.linkSpeed) (b := 100) (by decide); omega
  · split <;> split <;> simp_all <;> omega
  · split <;> split <;> simp_all <;> omega
  · split <;> split <;> omega
  · split <;> split <;> omega

/-- the characteristics word the Linux port's bits end up as in the Hello (upper half of the 32-bit word) -/
theorem linux_flags_in_hello (r : LinuxPort.Rec) :
    unbe (be 4 (((LinuxPort.supplied r).flags * 65536) % u32)) = (LinuxPort.supplied r).flags * 65536 := by
  rw [characteristics_word]
  have := (linux_port r).2.2.2.2.2.2.2.2
  rw [Nat.mod_eq_of_lt (by omega)]

/-- non-vacuity: a Wi-Fi record with a negative signal strength -/
example : CfgRange { wifi := true, rssi := -60, rate := 108, mode := 1, iftype := 71, speed := 540000 } :=
  ⟨by decide, by decide, by decide, by decide, by decide, by decide⟩

end LLTD.C04
