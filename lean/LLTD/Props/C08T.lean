/-
  C08 for the TRANSLATED source (DESIGN.md section 12.10): the QueryLargeTlvResp the model builds (`largeFrame`, the frame whose decoding
  `C08.fields_spec` / `reassemble_all` are about) begins with exactly the 32 bytes `setLltdHeader` of lltdWire.c - as translated from the C
  text on every run, with the arguments `sendLargeTlvResponse` passes - stores into the zeroed buffer.
-/
import LLTD.Props.C07T

namespace LLTD.C08T
open LLTD LLTD.TWEq

theorem large_header_translated (env : TW.Env) (c : Cfg) (hc : CfgOk c) (dest : Mac) (seq lenField : Nat) (payload : List Nat)
    (hd : dest.length = 6) (hseq : seq < 65536) :
    largeFrame c dest seq lenField payload
      = (TW.setLltdHeader env (List.replicate 32 0) c.ourMac dest seq X.opQltlvResp X.tosDiscovery).buffer ++ be 2 lenField ++ payload :=
  C07T.largeFrame_header env c hc dest seq lenField payload hd hseq

end LLTD.C08T
