/-
  C16 — The session table stays consistent under any sequence of operations.
  Invariant + refinement to the dictionary specification (Spec/Table.lean), by induction over operations.
-/
import LLTD.Lemmas.TableInv

namespace LLTD.C16
open LLTD LLTD.Spec

structure TInv (t : Table) : Prop where
  len   : t.entries.length = 16
  nodup : noDupKeys (liveS t.entries) = true
  count : t.count = (liveS t.entries).length
  allc  : t.allComplete = (liveS t.entries).all (·.complete)

theorem view_live (t : Table) : (viewOf t).live = liveS t.entries := rfl

theorem live_le (t : Table) (h : TInv t) : (liveS t.entries).length ≤ 16 := by
  have := liveS_length_le t.entries; rw [h.len] at this; exact this

/-- the invariant makes the observable view consistent: one session per key, at most 16, count and both flags truthful -/
theorem viewOk_of_inv (t : Table) (h : TInv t) : viewOk (viewOf t) = true := by
  have hl := live_le t h
  unfold viewOk
  have e1 : (viewOf t).count = t.count := rfl
  have e2 : (viewOf t).allc = t.allComplete := rfl
  have e3 : (viewOf t).empty = t.isEmpty := rfl
  rw [view_live, e1, e2, e3, h.nodup, decide_eq_true hl, decide_eq_true h.count, ← h.allc]
  simp only [Bool.true_and, Bool.and_true, beq_self_eq_true]
  unfold Table.isEmpty
  rw [h.count]
  cases liveS t.entries with
  | nil => rfl
  | cons a b => rfl

theorem liveS_create : liveS Table.create.entries = [] := by
  have := create_live
  unfold Table.live at this
  unfold liveS
  rw [this]; rfl

theorem create_inv : TInv Table.create := by
  refine ⟨?_, ?_, ?_, ?_⟩
  · simp [Table.create]
  · rw [liveS_create]; rfl
  · rw [liveS_create]; rfl
  · rw [liveS_create]; rfl

theorem updateStatus_inv (t : Table) (hl : t.entries.length = 16) (hn : noDupKeys (liveS t.entries) = true)
    (hc : t.count = (liveS t.entries).length) : TInv t.updateStatus :=
  ⟨hl, hn, hc, all_complete_iff t.entries⟩

/-! ### add -/
theorem add_inv (t : Table) (mac : Mac) (gen seq now : Nat) (h : TInv t) : TInv (t.add mac gen seq now).1 := by
  unfold Table.add
  by_cases hk : t.entries.any (fun e => e.matches mac gen) = true
  · rw [if_pos hk]
    have hlive := live_updateFirst_keep t.entries mac gen (fun e => { e with seq := seq, last := now })
      (fun s => { s with seq := seq, last := now }) (fun e => ⟨rfl, rfl, rfl⟩) h.nodup
    refine ⟨by simp only [updateFirst_length]; exact h.len, ?_, ?_, ?_⟩
    · simp only []; rw [hlive]
      exact noDupKeys_map_keep _ _ (fun s => by split <;> rfl) h.nodup
    · simp only []; rw [hlive, List.length_map]; exact h.count
    · simp only []; rw [hlive, h.allc, List.all_map]
      congr 1; funext s; simp only [Function.comp]; split <;> rfl
  · rw [if_neg hk]
    by_cases hf : t.entries.any (fun e => !e.valid) = true
    · rw [if_pos hf]
      obtain ⟨a, b, h1, h2⟩ := live_updateFirst_insert t.entries (newEntry mac gen seq now) rfl hf
      have hnk : (a ++ b).any (fun s => s.key == (sessOf (newEntry mac gen seq now)).key) = false := by
        rw [← h1]
        show (liveS t.entries).any (fun s => s.key == (mac, gen)) = false
        rw [← any_matches_iff]
        simpa using hk
      have hlt : (liveS t.entries).length < 16 := by
        have := (any_free_iff t.entries).mp hf; rw [h.len] at this; exact this
      refine ⟨by simp only [updateFirst_length]; exact h.len, ?_, ?_, ?_⟩
      · simp only []; rw [h2]; exact noDupKeys_insert a b _ (by rw [← h1]; exact h.nodup) hnk
      · simp only []; rw [h2]
        have : (a ++ sessOf (newEntry mac gen seq now) :: b).length = (liveS t.entries).length + 1 := by
          rw [h1]; simp; omega
        rw [this, h.count]
        apply Nat.mod_eq_of_lt; unfold u8; omega
      · simp only []; rw [h2]
        simp [List.all_append, sessOf, newEntry]
    · rw [if_neg hf]; exact h

theorem add_spec (t : Table) (mac : Mac) (gen seq now : Nat) (h : TInv t) :
    holdsC16 (viewOf t) (viewOf (t.add mac gen seq now).1) (.add mac gen seq) (t.add mac gen seq now).2.isSome now = true := by
  have hok := viewOk_of_inv _ (add_inv t mac gen seq now h)
  have hany := any_matches_iff t.entries mac gen
  unfold holdsC16
  rw [hok, Bool.true_and]
  simp only [view_live]
  by_cases hk : t.entries.any (fun e => e.matches mac gen) = true
  · have hk' : (liveS t.entries).any (fun s => s.key == (mac, gen)) = true := by rw [← hany]; exact hk
    simp only [hk', if_true]
    have hlive := live_updateFirst_keep t.entries mac gen (fun e => { e with seq := seq, last := now })
      (fun s => { s with seq := seq, last := now }) (fun e => ⟨rfl, rfl, rfl⟩) h.nodup
    have hadd : t.add mac gen seq now =
        ({ t with entries := updateFirst (fun e => e.matches mac gen) (fun e => { e with seq := seq, last := now }) t.entries }, t.find mac gen) := by
      unfold Table.add; rw [if_pos hk]
    rw [hadd]
    simp only []
    rw [hlive, sameSet_refl, Bool.and_true]
    unfold Table.find
    have : t.entries.findIdx (fun e => e.matches mac gen) < t.entries.length := by
      apply List.findIdx_lt_length_of_exists
      simpa [List.any_eq_true] using hk
    simp [this]
  · have hk' : (liveS t.entries).any (fun s => s.key == (mac, gen)) = false := by
      rw [← hany]; simpa using hk
    simp only [hk', Bool.false_eq_true, if_false]
    by_cases hf : t.entries.any (fun e => !e.valid) = true
    · have hlt : ¬ (liveS t.entries).length ≥ 16 := by
        have := (any_free_iff t.entries).mp hf; rw [h.len] at this; omega
      simp only [hlt, if_false]
      have hadd : t.add mac gen seq now =
          ({ entries := updateFirst (fun e => !e.valid) (fun _ => newEntry mac gen seq now) t.entries,
             count := (t.count + 1) % u8, allComplete := false }, t.firstFree) := by
        unfold Table.add; rw [if_neg hk, if_pos hf]
      rw [hadd]
      simp only []
      obtain ⟨a, b, h1, h2⟩ := live_updateFirst_insert t.entries (newEntry mac gen seq now) rfl hf
      rw [h2, h1]
      have hs : sameSet (a ++ sessOf (newEntry mac gen seq now) :: b)
          ({ mac := mac, gen := gen, seq := seq, complete := false, last := now } :: (a ++ b)) = true :=
        sameSet_insert a b (sessOf (newEntry mac gen seq now))
      rw [hs, Bool.and_true]
      unfold Table.firstFree
      have : t.entries.findIdx (fun e => !e.valid) < t.entries.length := by
        apply List.findIdx_lt_length_of_exists
        simpa [List.any_eq_true] using hf
      simp [this]
    · have hge : (liveS t.entries).length ≥ 16 := by
        have hnf : ¬ (liveS t.entries).length < t.entries.length := fun hlt => hf ((any_free_iff t.entries).mpr hlt)
        rw [h.len] at hnf; omega
      simp only [hge, if_true]
      have hadd : t.add mac gen seq now = (t, none) := by
        unfold Table.add; rw [if_neg hk, if_neg hf]
      rw [hadd]
      simp [sameSet_refl]

/-! ### find / remove / clear / complete / expiry -/
theorem find_spec (t : Table) (mac : Mac) (gen : Nat) (h : TInv t) :
    holdsC16 (viewOf t) (viewOf t) (.find mac gen) (t.find mac gen).isSome 0 = true := by
  have hany := any_matches_iff t.entries mac gen
  unfold holdsC16
  rw [viewOk_of_inv t h, Bool.true_and]
  simp only [view_live, sameSet_refl, Bool.and_true]
  unfold Table.find
  by_cases hk : t.entries.any (fun e => e.matches mac gen) = true
  · have hk' : (liveS t.entries).any (fun s => s.key == (mac, gen)) = true := by rw [← hany]; exact hk
    have : t.entries.findIdx (fun e => e.matches mac gen) < t.entries.length := by
      apply List.findIdx_lt_length_of_exists
      simpa [List.any_eq_true] using hk
    simp [this, hk']
  · have hk' : (liveS t.entries).any (fun s => s.key == (mac, gen)) = false := by
      rw [← hany]; simpa using hk
    have : ¬ t.entries.findIdx (fun e => e.matches mac gen) < t.entries.length := by
      intro hlt
      have := List.findIdx_getElem (w := hlt)
      exact hk (List.any_eq_true.mpr ⟨_, List.getElem_mem hlt, this⟩)
    simp [this, hk']

theorem remove_inv_spec (t : Table) (mac : Mac) (gen now : Nat) (h : TInv t) :
    TInv (t.remove mac gen) ∧ holdsC16 (viewOf t) (viewOf (t.remove mac gen)) (.remove mac gen) false now = true := by
  have hlive : liveS (if t.entries.any (fun e => e.matches mac gen) = true then
        ({ t with entries := updateFirst (fun e => e.matches mac gen) (fun e => { e with valid := false }) t.entries,
                  count := if t.count > 0 then t.count - 1 else t.count } : Table) else t).entries =
      (liveS t.entries).filter (fun s => s.key != (mac, gen)) := by
    split
    · exact live_updateFirst_remove t.entries mac gen h.nodup
    · next hk =>
      simp only [Bool.not_eq_true] at hk
      rw [any_matches_iff] at hk
      exact (filter_key_absent _ _ hk).symm
  have hinv : TInv (t.remove mac gen) := by
    unfold Table.remove
    apply updateStatus_inv
    · split
      · simp only [updateFirst_length]; exact h.len
      · exact h.len
    · rw [hlive]; exact noDupKeys_filter _ _ h.nodup
    · rw [hlive]
      split
      · next hk =>
        have hk' := hk; rw [any_matches_iff] at hk'
        have := filter_key_length _ _ h.nodup hk'
        simp only []
        rw [h.count]; split <;> omega
      · next hk =>
        simp only [Bool.not_eq_true] at hk
        rw [any_matches_iff] at hk
        rw [filter_key_absent _ _ hk]; exact h.count
  refine ⟨hinv, ?_⟩
  unfold holdsC16
  rw [viewOk_of_inv _ hinv, Bool.true_and]
  simp only [view_live]
  have : liveS (t.remove mac gen).entries = (liveS t.entries).filter (fun s => s.key != (mac, gen)) := by
    unfold Table.remove Table.updateStatus; exact hlive
  rw [this]; exact sameSet_refl _

theorem clear_inv_spec (t : Table) (now : Nat) :
    TInv t.clear ∧ holdsC16 (viewOf t) (viewOf t.clear) .clear false now = true := by
  refine ⟨create_inv, ?_⟩
  unfold holdsC16
  rw [show viewOf t.clear = viewOf Table.create from rfl, viewOk_of_inv _ create_inv, Bool.true_and]
  simp only [view_live]
  rw [liveS_create]; rfl

theorem complete_inv_spec (t : Table) (mac : Mac) (gen now : Nat) (h : TInv t) :
    TInv (t.markComplete mac gen) ∧ holdsC16 (viewOf t) (viewOf (t.markComplete mac gen)) (.complete mac gen) false now = true := by
  have hlive := live_updateFirst_keep t.entries mac gen (fun e => { e with complete := true })
      (fun s => { s with complete := true }) (fun e => ⟨rfl, rfl, rfl⟩) h.nodup
  have hinv : TInv (t.markComplete mac gen) := by
    unfold Table.markComplete
    apply updateStatus_inv
    · simp only [updateFirst_length]; exact h.len
    · simp only []; rw [hlive]; exact noDupKeys_map_keep _ _ (fun s => by split <;> rfl) h.nodup
    · simp only []; rw [hlive, List.length_map]; exact h.count
  refine ⟨hinv, ?_⟩
  unfold holdsC16
  rw [viewOk_of_inv _ hinv, Bool.true_and]
  simp only [view_live]
  have : liveS (t.markComplete mac gen).entries = (liveS t.entries).map (fun s => if s.key == (mac, gen) then { s with complete := true } else s) := by
    unfold Table.markComplete Table.updateStatus; exact hlive
  rw [this]; exact sameSet_refl _

/-- a session idle for more than 60 s is removed by the tick's sweep while fresher ones survive -/
theorem expire_inv_spec (t : Table) (now : Nat) (h : TInv t) :
    TInv (t.expire now) ∧ holdsC16 (viewOf t) (viewOf (t.expire now)) .expire false now = true := by
  obtain ⟨h1, h2, h3⟩ := expireLoop_spec now t.entries t.count
  have hfl := List.length_filter_le (fresh now) (liveS t.entries)
  have hinv : TInv (t.expire now) := by
    unfold Table.expire
    apply updateStatus_inv
    · simp only []; rw [h2]; exact h.len
    · simp only []; rw [h1]; exact noDupKeys_filter _ _ h.nodup
    · simp only []; rw [h1, h3, h.count]; omega
  refine ⟨hinv, ?_⟩
  unfold holdsC16
  rw [viewOk_of_inv _ hinv, Bool.true_and]
  simp only [view_live]
  have : liveS (t.expire now).entries = (liveS t.entries).filter (fresh now) := by
    unfold Table.expire Table.updateStatus; exact h1
  rw [this]; exact sameSet_refl _

/-! ### every reachable table -/
inductive Op where
  | add (mac : Mac) (gen seq : Nat) | find (mac : Mac) (gen : Nat) | remove (mac : Mac) (gen : Nat)
  | clear | complete (mac : Mac) (gen : Nat) | update | expire | advance (s : Nat)

/-- (table, clock in seconds) -/
def stepOp : Table × Nat → Op → Table × Nat
  | (t, now), .add m g q => ((t.add m g q now).1, now)
  | (t, now), .find _ _ => (t, now)
  | (t, now), .remove m g => (t.remove m g, now)
  | (t, now), .clear => (t.clear, now)
  | (t, now), .complete m g => (t.markComplete m g, now)
  | (t, now), .update => (t.updateStatus, now)
  | (t, now), .expire => (t.expire now, now)
  | (t, now), .advance s => (t, now + s)

theorem reach_step (s : Table × Nat) (op : Op) (h : TInv s.1) : TInv (stepOp s op).1 := by
  obtain ⟨t, now⟩ := s
  cases op with
  | add m g q => exact add_inv t m g q now h
  | find m g => exact h
  | remove m g => exact (remove_inv_spec t m g now h).1
  | clear => exact create_inv
  | complete m g => exact (complete_inv_spec t m g now h).1
  | update => exact updateStatus_inv t h.len h.nodup h.count
  | expire => exact (expire_inv_spec t now h).1
  | advance s => exact h

/-- under ANY sequence of add / find / remove / clear / completion / status update / expiry tick / clock advance
    the table stays consistent (hence, by `viewOk_of_inv`, at most one session per key, at most 16, truthful
    count and flags) -/
theorem reach (ops : List Op) (now0 : Nat) : TInv (ops.foldl stepOp (Table.create, now0)).1 := by
  suffices ∀ (s : Table × Nat), TInv s.1 → TInv (ops.foldl stepOp s).1 from this _ create_inv
  induction ops with
  | nil => intro s h; exact h
  | cons op ops ih =>
    intro s h
    simp only [List.foldl_cons]
    exact ih _ (reach_step s op h)

/-- adding to a full table fails without disturbing existing sessions -/
theorem add_full (t : Table) (mac : Mac) (gen seq now : Nat) (h : TInv t) (hfull : (liveS t.entries).length = 16)
    (hnew : t.entries.any (fun e => e.matches mac gen) = false) : t.add mac gen seq now = (t, none) := by
  unfold Table.add
  have hf : ¬ t.entries.any (fun e => !e.valid) = true := by
    intro hf; have := (any_free_iff t.entries).mp hf; rw [h.len] at this; omega
  simp [hnew, hf]

/-- non-vacuity: a concrete reachable table with two sessions of one mapper under different generations -/
example : (viewOf ([Op.add [2,0,0,0,0,1] 1 5, Op.add [2,0,0,0,0,1] 2 5, Op.complete [2,0,0,0,0,1] 1].foldl stepOp (Table.create, 7)).1).count = 2 := by
  decide

end LLTD.C16
