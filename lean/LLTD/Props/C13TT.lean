/-
  C13's tick clause for `automata_tick` AS TRANSLATED from the C text (a separate module because Lemmas/TranslatedTick.lean, which
  proves the translated tick equal to the model's, itself uses Props/C13T.lean).  No Mathlib.
-/
import LLTD.Props.C13
import LLTD.Lemmas.TranslatedTick

namespace LLTD.C13TT
open LLTD LLTD.Spec LLTD.TEq

/-- C13's tick clause for the translated tick: when the tick (as compiled from the C text) ends a block, the count follows the formula and
    the next Hello is scheduled no sooner than the load formula for the NEW count allows - whatever its Hello branch did in the same call -/
theorem tick_schedule_translated (e : T.Env) (he : EnvOk e) (m en : T.automata) (t : T.session_table) (p : T.lltd_automata_tick_port)
    (mx : T.mapping_state) (bx : T.band_state) (ltx : Nat)
    (hm : AutOk m) (him : IsMapping m) (hen : EnumOk en) (ht : TickTblOk t) (hb : BandOk bx) (hltx : ltx ≤ e.nowMs) :
    holdsC13Tick (bandOfC bx) (bandOfC (T.automata_tick e m en t p mx bx ltx).enumeration_extra) e.nowMs = true := by
  obtain ⟨h1, _, _⟩ := automata_tick_eq e he m en t p mx bx ltx hm him hen ht hb hltx
  have hE := congrArg TickState.enum h1
  unfold tick at hE
  simp only [] at hE
  have hS := C13.tick_schedule (fsmOfC en) (bandOfC bx)
    (Option.map (fun t => t.expire (e.nowMs / 1000)) (tickMapStage (some (fsmOfC m, some (mapOfC mx))) (some (tableOfC t)) (e.nowMs / 1000)).2)
    ltx .wired e.nowMs hb.2
  rw [hE] at hS
  exact hS

end LLTD.C13TT
