/-
  C15 for the TRANSLATED SOURCE: switch_state_session as regenerated from lltdAutomata.c by tools/c2lean.py follows the
  session life-cycle (see Props/C13T.lean for the idea, Lemmas/TranslatedEq.lean for the equality with the model).  No Mathlib.
-/
import LLTD.Props.C15
import LLTD.Lemmas.TranslatedEq

namespace LLTD.C15T
open LLTD LLTD.Spec LLTD.TEq

theorem step_translated (e : T.Env) (hnow : e.nowS < u64) (a : T.automata) (ev : Int) (hok : AutOk a) (hm : IsSession a)
    (hs : a.current_state < 4) :
    holdsC15Step (timeoutOf X.sessionTimeouts a.current_state) (fsmOfC a) (fsmOfC (T.switch_state_session 2 e a ev).autom) ev e.nowS = true ∧
    (T.switch_state_session 2 e a ev).diverged = false ∧ sameTables a (T.switch_state_session 2 e a ev).autom := by
  obtain ⟨h1, h2, h3⟩ := switch_state_session_eq e hnow a ev hok hm
  refine ⟨?_, h2, h3⟩
  rw [h1]
  exact C15.step (fsmOfC a) hs ev e.nowS hnow

-- non-vacuity: the record rebuilt from the extracted tables meets the hypotheses, and the translated function runs on it
example : IsSession (autOfX X.sessionTable X.sessionTimeouts 1 7) ∧ AutOk (autOfX X.sessionTable X.sessionTimeouts 1 7) := by
  refine ⟨⟨by decide, ?_⟩, ⟨by decide +kernel, by decide +kernel, by decide⟩⟩
  have : timeoutsOfC (autOfX X.sessionTable X.sessionTimeouts 1 7) = X.sessionTimeouts ++ List.replicate 1 0 := by decide
  rw [this]; exact tosEq_pad _ _
example : (T.switch_state_session 2 { nowMs := 7000, nowS := 7 } (autOfX X.sessionTable X.sessionTimeouts 1 7) 2).autom.current_state = 2 := by
  decide +kernel
example : (T.switch_state_session 2 { nowMs := 9000, nowS := 9 } (autOfX X.sessionTable X.sessionTimeouts 3 7) 4).autom.current_state = 1 := by
  decide +kernel

end LLTD.C15T
