/-
  C10 — end to end.  (1) Specification level, independent of the model: an observation that is pending is never
  silently lost — over every further history without a topology Reset it is still pending or it has been listed in
  one of the QueryResp frames the mapper read (`spec_conservation`), and once a QueryResp inside C07's domain
  says "no more" nothing is pending (`drained`).  (2) Model level: the Probe/Train that responder A transmits
  for a descriptor addressed to responder B, delivered unmodified into B's receive buffer, puts an observation
  with A as real source and the descriptor's source as Ethernet source into B's pending set (`peer_pending`).
  (3) Composition (`end_to_end`): over every continuation at B that observation is pending or was reported.
-/
import LLTD.Lemmas.History
import LLTD.Props.C10
import LLTD.Props.C07H

namespace LLTD.C10H
open LLTD LLTD.Spec

/-! ## (1) the specification never loses a pending observation -/

theorem mem_removeFirst (o d : ObsDesc) (p : List ObsDesc) (h : o ∈ p) : o ∈ removeFirst d p ∨ o = d := by
  induction p with
  | nil => simp at h
  | cons y ys ih =>
    simp only [removeFirst]
    by_cases hd : (d == y) = true
    · rw [if_pos hd]
      rcases List.mem_cons.mp h with rfl | h'
      · exact Or.inr (eq_of_beq hd).symm
      · exact Or.inl h'
    · rw [if_neg hd]
      rcases List.mem_cons.mp h with rfl | h'
      · exact Or.inl (by simp)
      · rcases ih h' with h1 | h1
        · exact Or.inl (List.mem_cons_of_mem _ h1)
        · exact Or.inr h1

theorem mem_fold_remove (o : ObsDesc) (rep p : List ObsDesc) (h : o ∈ p) :
    o ∈ rep.foldl (fun p d => removeFirst d p) p ∨ o ∈ rep := by
  induction rep generalizing p with
  | nil => exact Or.inl h
  | cons d ds ih =>
    simp only [List.foldl_cons]
    rcases mem_removeFirst o d p h with h1 | h1
    · rcases ih _ h1 with h2 | h2
      · exact Or.inl h2
      · exact Or.inr (List.mem_cons_of_mem _ h2)
    · exact Or.inr (by rw [h1]; simp)

/-- one frame that is no topology Reset: a pending observation stays pending or is among what was reported -/
theorem step_keeps (own : List Nat) (dom : Nat) (g : Glob) (s : SpecSt) (f : List Nat) (rep : List ObsDesc) (o : ObsDesc)
    (ho : o ∈ s.pending) (hnr : isReset0 f = false) :
    o ∈ (specStep own dom g s f rep).pending ∨ (isQuery f = true ∧ o ∈ rep) := by
  unfold specStep
  by_cases h32 : f.length < 32
  · simp only [h32, if_true]; exact Or.inl ho
  · simp only [h32, if_false, hnr, Bool.false_eq_true]
    by_cases h1 : isReset f = true
    · simp only [h1, if_true]; exact Or.inl ho
    · simp only [h1, if_false]
      by_cases h2 : isDiscover f = true
      · simp only [h2, if_true]; exact Or.inl ho
      · simp only [h2, if_false]
        by_cases h3 : isEmit f = true
        · simp only [h3, if_true]; exact Or.inl ho
        · simp only [h3, if_false]
          by_cases h4 : isQuery f = true
          · simp only [h4, if_true]
            rcases mem_fold_remove o rep s.pending ho with h | h
            · exact Or.inl h
            · exact Or.inr ⟨trivial, h⟩
          · simp only [h4, if_false]
            by_cases h5 : isLarge f = true
            · simp only [h5, if_true]
              repeat' split
              all_goals exact Or.inl ho
            · simp only [h5, if_false]
              by_cases h6 : isProbe f = true
              · simp only [h6, if_true]
                repeat' split
                all_goals first | exact Or.inl ho | exact Or.inl (List.mem_cons_of_mem _ ho)
              · simp only [h6]; exact Or.inl ho

/-- the specification state after a trace -/
def specFinal (own : List Nat) (dom : Nat) : SpecSt → List RxObs → SpecSt
  | s, [] => s
  | s, r :: rest => specFinal own dom (specStep own dom r.glob s r.frame (reportedOf r.fx)) rest

/-- everything the mapper read in QueryResp frames answering Queries of the trace -/
def allReported (t : List RxObs) : List ObsDesc :=
  t.flatMap (fun r => if isQuery r.frame then reportedOf r.fx else [])

/-- SPECIFICATION-LEVEL CONSERVATION: over every trace without a topology Reset -/
theorem spec_conservation (own : List Nat) (dom : Nat) (t : List RxObs) :
    ∀ (s : SpecSt) (o : ObsDesc), o ∈ s.pending → (∀ r ∈ t, isReset0 r.frame = false) →
      o ∈ (specFinal own dom s t).pending ∨ o ∈ allReported t := by
  induction t with
  | nil => intro s o ho _; exact Or.inl ho
  | cons r rest ih =>
    intro s o ho hnr
    simp only [specFinal, allReported, List.flatMap_cons, List.mem_append]
    rcases step_keeps own dom r.glob s r.frame (reportedOf r.fx) o ho (hnr r (by simp)) with h | ⟨hq, h⟩
    · rcases ih _ o h (fun x hx => hnr x (by simp [hx])) with h2 | h2
      · exact Or.inl h2
      · exact Or.inr (Or.inr h2)
    · exact Or.inr (Or.inl (by simp [hq, h]))

/-- inside C07's domain, a QueryResp that says "no more" leaves nothing pending -/
theorem drained (own : List Nat) (dom : Nat) (s : SpecSt) (r : RxObs) (hq : isQuery r.frame = true) (hov : s.overflow = false)
    (hr0 : isReset0 r.frame = false) (hr1 : isReset r.frame = false) (hd : isDiscover r.frame = false) (he : isEmit r.frame = false)
    (hl : ¬ r.frame.length < 32)
    (hold : holdsC07Rx s r = true) (hmore : ∀ f q, sends r.fx = [f] → decodeQueryResp f = some q → q.more = false) :
    (specStep own dom r.glob s r.frame (reportedOf r.fx)).pending = [] := by
  unfold holdsC07Rx at hold
  simp only [hq, Bool.not_true, Bool.false_eq_true, if_false, hov] at hold
  cases hs : sends r.fx with
  | nil => rw [hs] at hold; simp at hold
  | cons f rest =>
    cases rest with
    | cons _ _ => rw [hs] at hold; simp at hold
    | nil =>
      rw [hs] at hold
      simp only [] at hold
      cases hq' : decodeQueryResp f with
      | none => rw [hq'] at hold; simp at hold
      | some q =>
        rw [hq'] at hold
        simp only [Bool.and_eq_true, beq_iff_eq, decide_eq_true_eq] at hold
        obtain ⟨⟨⟨⟨⟨⟨_, _⟩, _⟩, _⟩, hsub⟩, hlen⟩, hm⟩ := hold
        have hmf := hmore f q hs hq'
        rw [hmf] at hm
        have hfull : ¬ q.descs.length < s.pending.length := by
          intro h; have := decide_eq_true h; rw [← hm] at this; exact Bool.noConfusion this
        have hrep : reportedOf r.fx = q.descs := by
          unfold reportedOf; rw [hs]; simp [hq']
        unfold specStep
        simp only [hl, if_false, hr0, hr1, hd, he, hq, if_true, Bool.false_eq_true, hrep]
        -- all pending were listed: removing a sub-multiset of full length leaves nothing
        have key : ∀ (ds p : List ObsDesc), subMultiset ds p = true → p.length ≤ ds.length →
            ds.foldl (fun p d => removeFirst d p) p = [] := by
          intro ds
          induction ds with
          | nil => intro p _ hl; exact List.eq_nil_of_length_eq_zero (by simpa using hl)
          | cons d ds ih =>
            intro p hsub hl
            simp only [subMultiset, Bool.and_eq_true] at hsub
            simp only [List.foldl_cons]
            apply ih _ hsub.2
            have hmem : d ∈ p := by simpa using hsub.1
            have : (removeFirst d p).length + 1 = p.length := by
              clear hsub hl ih
              induction p with
              | nil => simp at hmem
              | cons y ys ihp =>
                simp only [removeFirst]
                by_cases hdy : (d == y) = true
                · rw [if_pos hdy]; simp
                · rw [if_neg hdy]
                  have : d ∈ ys := by
                    rcases List.mem_cons.mp hmem with h | h
                    · rw [h] at hdy; simp at hdy
                    · exact h
                  simp only [List.length_cons]; rw [ihp this]
            simp only [List.length_cons] at hl; omega
        exact key q.descs s.pending hsub (by omega)


/-! ## (2) what A transmits, delivered to B, becomes pending at B -/

theorem peer_pending (a b : Cfg) (g : Glob) (s : SpecSt) (src : Mac) (ty : Nat) (tail : List Nat) (rep : List ObsDesc)
    (ha : CfgOk a) (hb : CfgOk b) (hma : a.failMac = false) (hsrc : src.length = 6) (hty : ty ≤ 1)
    (htail : 4 ≤ tail.length) (hroom : s.pending.length < 300) :
    let img := C06.probeFrame a src b.mac ty ++ tail
    ∃ o ∈ (specStep b.mac 300 g s img rep).pending, o.realSrc = a.mac ∧ o.src = src := by
  have hoa : a.ourMac = a.mac := by simp [Cfg.ourMac, hma]
  have hf := C10.header_fields 0 b.mac src b.mac a.ourMac 0 (if ty = 1 then X.opProbe else X.opTrain) X.tosDiscovery tail
    hb.mac6 hsrc hb.mac6 (ourMac_length a ha)
  simp only [] at hf ⊢
  obtain ⟨f1, f2, f3, f4, f5, f6⟩ := hf
  have himg : C06.probeFrame a src b.mac ty ++ tail =
      lltdHeader 0 b.mac src b.mac a.ourMac 0 (if ty = 1 then X.opProbe else X.opTrain) X.tosDiscovery ++ tail := rfl
  have hlen : 36 ≤ (C06.probeFrame a src b.mac ty ++ tail).length := by
    rw [himg, List.length_append, lltdHeader_length _ _ _ _ _ _ _ _ hb.mac6 hsrc hb.mac6 (ourMac_length a ha)]; omega
  rw [himg] at hlen ⊢
  generalize lltdHeader 0 b.mac src b.mac a.ourMac 0 (if ty = 1 then X.opProbe else X.opTrain) X.tosDiscovery ++ tail = img at *
  have hrest := spec_rest b.mac 300 g s img rep hlen
  have hp := congrArg (fun x => x.1) hrest
  simp only [] at hp
  rw [hp]
  have t0 : LLTD.fTos img = 0 := by rw [f6]; rfl
  have hop : LLTD.fOpcode img = 3 ∨ LLTD.fOpcode img = 4 := by
    rw [f5]; by_cases h : ty = 1 <;> simp [h]
  unfold restStep
  have o8 : ¬ LLTD.fOpcode img = 8 := by omega
  have o6 : ¬ LLTD.fOpcode img = 6 := by omega
  have o11 : ¬ LLTD.fOpcode img = 11 := by omega
  simp only [t0, o8, o6, o11, hop, and_false, and_true, true_and, if_false, if_true]
  have hus : (LLTD.fRealDst img != b.mac) = false := by rw [f3]; simp
  simp only [hus, Bool.false_eq_true, if_false]
  by_cases hdup : s.pending.any (fun p => obsKey p == obsKey (probeDesc img)) = true
  · simp only [hdup, if_true]
    rw [List.any_eq_true] at hdup
    obtain ⟨p, hp', hk⟩ := hdup
    simp only [obsKey, probeDesc, beq_iff_eq, Prod.mk.injEq] at hk
    exact ⟨p, hp', by rw [hk.2, f4, hoa], by rw [hk.1, f2]⟩
  · simp only [hdup, if_false]
    have hr : ¬ s.pending.length ≥ 300 := by omega
    simp only [hr, if_false]
    exact ⟨probeDesc img, by simp, by simp [probeDesc, f4, hoa], by simp [probeDesc, f2]⟩

/-! ## (3) composition -/

/-- END TO END: responder A (any state, fault-free) executes an Emit whose descriptor `i` is addressed to responder B;
    the frame A transmits for it is `C06.probeFrame a src b.mac ty` (`C06.emit_exact`).  Delivered unmodified into B's
    receive buffer (any tail), it leaves an observation with A as real source and the descriptor's source as Ethernet
    source pending at B, and over EVERY further history at B that contains no topology Reset this observation is
    either still pending or has been listed in one of the QueryResp frames B sent (as the mapper decodes them). -/
theorem end_to_end (a b : Cfg) (g : Glob) (src : Mac) (ty : Nat) (tail : List Nat)
    (ha : CfgOk a) (hb : CfgOk b) (hma : a.failMac = false) (hsrc : src.length = 6) (hty : ty ≤ 1) (htail : 4 ≤ tail.length)
    (w : World) (stB : St) (s : SpecSt) (hroom : s.pending.length < 300)
    (rest : List (List Nat)) (hnr : ∀ img ∈ rest, isReset0 img = false) :
    let img := C06.probeFrame a src b.mac ty ++ tail
    let t := C05.runObs b g w stB (img :: rest)
    ∃ o : ObsDesc, o.realSrc = a.mac ∧ o.src = src ∧
      (o ∈ (specFinal b.mac 300 s t).pending ∨ o ∈ allReported t) := by
  simp only []
  obtain ⟨o, ho, h1, h2⟩ := peer_pending a b g s src ty tail
    (reportedOf (obsOf b g (C06.probeFrame a src b.mac ty ++ tail) (parseFrameSt b g w stB (C06.probeFrame a src b.mac ty ++ tail)).fx).fx)
    ha hb hma hsrc hty htail hroom
  refine ⟨o, h1, h2, ?_⟩
  simp only [C05.runObs, specFinal]
  have hfr : ∀ (w' : World) (st' : St) (r : RxObs), r ∈ C05.runObs b g w' st' rest → isReset0 r.frame = false := by
    intro w' st' r hr
    have : ∀ (imgs : List (List Nat)) (w' : World) (st' : St), (∀ img ∈ imgs, isReset0 img = false) →
        ∀ r ∈ C05.runObs b g w' st' imgs, isReset0 r.frame = false := by
      intro imgs
      induction imgs with
      | nil => intro _ _ _ r hr; simp [C05.runObs] at hr
      | cons i is ih =>
        intro w' st' hh r hr
        simp only [C05.runObs, List.mem_cons] at hr
        rcases hr with rfl | hr
        · exact hh i (by simp)
        · exact ih _ _ (fun x hx => hh x (by simp [hx])) r hr
    exact this rest w' st' hnr r hr
  have hglob : (obsOf b g (C06.probeFrame a src b.mac ty ++ tail) (parseFrameSt b g w stB (C06.probeFrame a src b.mac ty ++ tail)).fx).glob = g := rfl
  have hframe : (obsOf b g (C06.probeFrame a src b.mac ty ++ tail) (parseFrameSt b g w stB (C06.probeFrame a src b.mac ty ++ tail)).fx).frame =
      C06.probeFrame a src b.mac ty ++ tail := rfl
  rw [hglob, hframe]
  rcases spec_conservation b.mac 300 _ _ o ho (hfr _ _) with h | h
  · exact Or.inl h
  · right
    simp only [allReported, List.flatMap_cons, List.mem_append]
    exact Or.inr h

/-- non-vacuity of (1): three pending, two reported, one stays -/
example : (([⟨1,[1],[2],[3]⟩, ⟨0,[4],[5],[3]⟩] : List ObsDesc).foldl (fun p d => removeFirst d p)
    [⟨1,[1],[2],[3]⟩, ⟨0,[4],[5],[3]⟩, ⟨1,[6],[7],[3]⟩]) = [⟨1,[6],[7],[3]⟩] := by decide

end LLTD.C10H
