import LLTD.Model.Block
import LLTD.Spec.Block

namespace LLTD.C07
open LLTD LLTD.Spec

theorem placeholder_layout : X.sizeofDemux = 32 := by decide

end LLTD.C07
