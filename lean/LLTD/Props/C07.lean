/-
  C07 — Every observed probe is reported to the mapper exactly once.
  Model level: the list of pending observations (`sees`, newest first) is recorded without duplicates, listed in
  order by a Query up to the frame capacity, and only what was listed is dropped.
-/
import LLTD.Lemmas.Safe

namespace LLTD.C07
open LLTD

/-- the observation parseProbe builds from a frame -/
def obsOfFrame (img : List Nat) : Obs :=
  { typ := if fOpcode img = X.opProbe then 1 else 0, realSrc := fRealSrc img, src := fEthSrc img, dst := fEthDst img }

/-- frames addressed to other stations are never recorded -/
theorem not_for_us (c : Cfg) (w : World) (st : St) (img : List Nat) (h : fRealDst img ≠ c.ourMac) :
    parseProbe c w st img = { st := st, w := w, fx := [] } := by
  unfold parseProbe
  have : (fRealDst img != c.ourMac) = true := by simp [bne, h]
  simp [this]

/-- a Probe/Train for this station with a new (Ethernet source, real source) pair is recorded once, at the head -/
theorem record_new (c : Cfg) (w : World) (st : St) (img : List Nat) (hus : fRealDst img = c.ourMac)
    (hroom : st.count < 1024) (hm : (w.malloc X.nodeBytes).2 = true)
    (hnew : st.sees.any (fun p => (obsOfFrame img).src == p.src && (obsOfFrame img).realSrc == p.realSrc) = false) :
    (parseProbe c w st img).st.sees = obsOfFrame img :: st.sees ∧ (parseProbe c w st img).fx = [] := by
  unfold parseProbe
  have h1 : (fRealDst img != c.ourMac) = false := by simp [bne, hus]
  have h2 : seesFull st.count = false := by simp [seesFull]; omega
  unfold obsOfFrame at hnew
  have hm' : (w.malloc 28).2 = true := by simpa using hm
  simp [h1, h2, hm', hnew, obsOfFrame]

/-- a duplicate (same Ethernet source and real source) is not recorded again -/
theorem record_dup (c : Cfg) (w : World) (st : St) (img : List Nat)
    (hdup : st.sees.any (fun p => (obsOfFrame img).src == p.src && (obsOfFrame img).realSrc == p.realSrc) = true) :
    (parseProbe c w st img).st = st ∧ (parseProbe c w st img).fx = [] := by
  unfold parseProbe
  unfold obsOfFrame at hdup
  simp only []
  repeat' split
  all_goals first | exact ⟨rfl, rfl⟩ | (simp_all)

/-- the serialisation loop lists the first `rem` pending observations, in order, when they fit -/
theorem queryLoop_take (mtu : Nat) (sees : List Obs) :
    ∀ (rem off : Nat), off + 20 * (min rem sees.length) ≤ mtu →
      queryLoop mtu sees rem off = ((sees.take rem).flatMap obsWire, min rem sees.length) := by
  induction sees with
  | nil => intro rem off _; cases rem <;> simp [queryLoop]
  | cons o os ih =>
    intro rem off hfit
    cases rem with
    | zero => simp [queryLoop]
    | succ r =>
      simp only [queryLoop]
      have hmin : min (r + 1) (o :: os).length = min r os.length + 1 := by simp [Nat.succ_min_succ]
      rw [hmin] at hfit
      have hno : ¬ off + 20 > mtu := by omega
      rw [if_neg hno, ih r (off + 20) (by omega)]
      simp [hmin]

theorem queryNum_eq (count mtu : Nat) (hm : mtu ≤ 9216) : queryNum count mtu = min count (queryMaxDescs mtu) := by
  unfold queryNum
  have hmax : queryMaxDescs mtu < u16 := by
    unfold queryMaxDescs u16
    simp only [X.sizeofDemux_val, X.sizeofQryRespHdr_val]
    split <;> omega
  split
  · next h => rw [Nat.mod_eq_of_lt hmax]; omega
  · next h => rw [Nat.mod_eq_of_lt (by omega)]; omega

theorem query_fits (mtu num : Nat) (h : num ≤ queryMaxDescs mtu) (hm : 34 < mtu) : 34 + 20 * num ≤ mtu := by
  unfold queryMaxDescs at h
  simp only [X.sizeofDemux_val, X.sizeofQryRespHdr_val, Nat.reduceAdd] at h
  rw [if_pos hm] at h
  have := Nat.div_mul_le_self (mtu - 34) 20
  omega

/-- THE QUERY THEOREM: the response lists the first min(pending, capacity) observations in order, says `more` iff
    some remain, carries the Query's sequence number, and exactly what was listed is dropped from the record -/
theorem query (c : Cfg) (w : World) (st : St) (img : List Nat) (hc : CfgOk c) (hi : St.Inv st) (hm : (w.malloc c.mtuEff).2 = true) :
    let n := min st.sees.length (queryMaxDescs c.mtuEff)
    (parseQuery c w st img).fx =
        [Fx.send ((w.malloc c.mtuEff).1.send).2 c.idx
          (queryFrame c img (fSeq img) n (decide (st.sees.length > n)) ((st.sees.take n).flatMap obsWire))] ∧
    (parseQuery c w st img).st.sees = st.sees.drop n := by
  have hge := mtuEff_ge c hc
  have hle := mtuEff_le c hc
  simp only []
  have hnum : queryNum st.count c.mtuEff = min st.sees.length (queryMaxDescs c.mtuEff) := by
    rw [queryNum_eq _ _ hle, hi.count]
  have hfit := query_fits c.mtuEff (min st.sees.length (queryMaxDescs c.mtuEff)) (Nat.min_le_right _ _) (by omega)
  have hloop := queryLoop_take c.mtuEff st.sees (min st.sees.length (queryMaxDescs c.mtuEff)) 34 (by
    have : min (min st.sees.length (queryMaxDescs c.mtuEff)) st.sees.length = min st.sees.length (queryMaxDescs c.mtuEff) := by omega
    rw [this]; exact hfit)
  have hmin2 : min (min st.sees.length (queryMaxDescs c.mtuEff)) st.sees.length = min st.sees.length (queryMaxDescs c.mtuEff) := by omega
  rw [hmin2] at hloop
  unfold parseQuery
  simp only [hm, Bool.not_true, Bool.false_eq_true, if_false]
  have hh : ¬ (X.sizeofDemux + X.sizeofQryRespHdr > c.mtuEff) := by simp only [X.sizeofDemux_val, X.sizeofQryRespHdr_val]; omega
  simp only [if_neg hh, hnum]
  have e34 : X.sizeofDemux + X.sizeofQryRespHdr = 34 := by decide
  rw [e34, hloop]
  simp only [hi.count, sendFx]
  exact ⟨trivial, trivial⟩

/-- conservation over successive Queries (specification level): splitting a record into chunks of at most
    `cap > 0` and concatenating what each response listed gives back the record — nothing lost, nothing twice -/
def drain (cap : Nat) : Nat → List Obs → List (List Obs)
  | 0, _ => []
  | fuel + 1, p => if p.isEmpty then [] else p.take cap :: drain cap fuel (p.drop cap)

theorem drain_conserves (cap : Nat) (hcap : 0 < cap) (p : List Obs) : ∀ fuel, p.length ≤ fuel → (drain cap fuel p).flatten = p := by
  intro fuel
  induction fuel generalizing p with
  | zero => intro h; have : p = [] := List.eq_nil_of_length_eq_zero (by omega); subst this; rfl
  | succ k ih =>
    intro h
    simp only [drain]
    cases hp : p with
    | nil => rfl
    | cons a as =>
      simp only [List.isEmpty_cons, Bool.false_eq_true, if_false, List.flatten_cons]
      rw [ih ((a :: as).drop cap) (by
        rw [hp] at h
        simp only [List.length_drop, List.length_cons] at *
        omega)]
      exact List.take_append_drop cap (a :: as)

/-- a topology Reset discards the record -/
theorem reset_discards (st : St) : (resetSt st).sees = [] ∧ (resetSt st).count = 0 := ⟨rfl, rfl⟩

/-- non-vacuity: three pending observations, capacity 2: two Queries deliver 2 + 1 -/
example : (drain 2 4 [⟨1, [1], [2], [3]⟩, ⟨0, [1], [4], [3]⟩, ⟨1, [5], [2], [3]⟩]).map List.length = [2, 1] := by decide

/-- a Query whose response buffer the platform refuses: nothing is transmitted AND nothing is lost - the record of
    observations is exactly what it was (round 13, seeded change C07_n took the batch out of the record first) -/
theorem query_alloc_refused (c : Cfg) (w : World) (st : St) (img : List Nat) (hm : (w.malloc c.mtuEff).2 = false) :
    (parseQuery c w st img).fx = [] ∧ (parseQuery c w st img).st.sees = st.sees ∧ (parseQuery c w st img).st.count = st.count := by
  unfold parseQuery
  simp [hm]

end LLTD.C07
