/-
  C12 — Periodic Hellos are paced, purposeful and stop with the session.
-/
import LLTD.Props.C16
import LLTD.Spec.Tick
import LLTD.Lemmas.Lookup

namespace LLTD.C12
open LLTD LLTD.Spec

theorem foldl_from_ge (tbl : TransTable) (cur : Nat) (i : Int) (n : Nat) (hc : n ≤ cur) (h : ∀ r ∈ tbl, r.1 < n) :
    lookup tbl cur i = (cur, false) := by
  unfold lookup
  apply foldl_nomatch
  intro r hr hcond
  have := h r hr
  omega

/-- the table-driven update leaves the enumeration in Pausing only if the session table is neither empty nor
    all complete — for every automaton state (also out-of-range ones) -/
theorem update_pausing (e : Fsm) (b : Band) (te ac : Bool) (nowS : Nat)
    (h : (enumUpdate e b te ac nowS).1.state = 1) : te = false ∧ ac = false := by
  unfold enumUpdate at h
  by_cases h0 : e.state ≠ 0
  · rw [if_pos h0] at h
    cases te with
    | true => simp at h
    | false =>
      simp only [Bool.false_eq_true, if_false] at h
      cases ac with
      | false => exact ⟨rfl, rfl⟩
      | true =>
        simp only [if_true, stepEnumeration, stepPlain] at h
        exfalso
        by_cases hs : e.state < 3
        · have key : ∀ s' < 3, (lookup X.enumerationTable s' (X.enumSessComplete : Nat)).1 ≠ 1 := by decide
          exact key _ hs h
        · have hr : ∀ r ∈ X.enumerationTable, r.1 < 3 := by decide
          rw [foldl_from_ge X.enumerationTable e.state _ 3 (by omega) hr] at h
          simp only [] at h; omega
  · rw [if_neg h0] at h
    simp only [] at h
    omega

/-- the Hello-timeout branch with the Darwin wiring: no Hello and the time stamp untouched, or exactly one Hello
    at `now` > 0, at least one second after the previous one, and the time stamp becomes `now` -/
theorem hello_branch (e : Fsm) (b : Band) (lastTx now : Nat) (hn : now < u64) (hl : lastTx ≤ now) :
    ((enumHello e b lastTx .wired now).2.2.2 = [] ∧ (enumHello e b lastTx .wired now).2.2.1 = lastTx) ∨
    ((enumHello e b lastTx .wired now).2.2.2 = [now] ∧ (enumHello e b lastTx .wired now).2.2.1 = now ∧ 0 < now ∧
      (lastTx = 0 ∨ lastTx + 1000 ≤ now)) := by
  unfold enumHello
  by_cases hd : b.helloTs > 0 ∧ now ≥ b.helloTs
  · simp only [hd, and_self, if_true]
    by_cases hs : lastTx > 0 ∧ diff64 now lastTx < X.helloMinIntervalMs
    · simp only [hs, and_self, if_true]; left; first | exact ⟨rfl, rfl⟩ | trivial | simp
    · simp only [hs, if_false]
      right
      refine ⟨by first | rfl | trivial, by first | rfl | trivial, by omega, ?_⟩
      by_cases hz : lastTx = 0
      · exact Or.inl hz
      · right
        have hdiff : ¬ diff64 now lastTx < X.helloMinIntervalMs := fun hlt => hs ⟨by omega, hlt⟩
        rw [diff64_of_le now lastTx hl hn, X.helloMinIntervalMs_val] at hdiff
        omega
  · simp only [hd, if_false]; left; first | exact ⟨rfl, rfl⟩ | trivial | simp

/-- one tick, Darwin wiring: no Hello (time stamp untouched), or exactly one Hello at `now`, and then the session
    table it saw (after the inactivity clear and the expiry sweep) was neither empty nor all complete -/
theorem tick_hello (s : TickState) (now : Nat) (hn : now < u64) (hl : s.lastTx ≤ now) :
    ((tick s .wired now).2 = [] ∧ (tick s .wired now).1.lastTx = s.lastTx) ∨
    ((tick s .wired now).2 = [now] ∧ (tick s .wired now).1.lastTx = now ∧ 0 < now ∧
      (s.lastTx = 0 ∨ s.lastTx + 1000 ≤ now) ∧
      tableEmptyOf (tick s .wired now).1.table = false ∧ allCompleteOf (tick s .wired now).1.table = false) := by
  unfold tick
  simp only []
  generalize ((tickMapStage s.mapping s.table (now / 1000)).2.map fun t => t.expire (now / 1000)) = tb
  unfold tickEnumStage
  match hen : s.enum with
  | none => left; exact ⟨rfl, rfl⟩
  | some (e, none) => left; exact ⟨rfl, rfl⟩
  | some (e, some b) =>
    simp only []
    by_cases hp : (enumUpdate e b (tableEmptyOf tb) (allCompleteOf tb) (now / 1000)).1.state = 1
    · simp only [hp, if_true]
      have hu := update_pausing e b _ _ _ hp
      rcases hello_branch (enumUpdate e b (tableEmptyOf tb) (allCompleteOf tb) (now / 1000)).1
          (enumUpdate e b (tableEmptyOf tb) (allCompleteOf tb) (now / 1000)).2 s.lastTx now hn hl with h | h
      · left; exact h
      · right; exact ⟨h.1, h.2.1, h.2.2.1, h.2.2.2, hu.1, hu.2⟩
    · simp only [hp, if_false]; left; first | exact ⟨rfl, rfl⟩ | trivial | simp

/-- purposeful: a periodic Hello is sent only while the session table holds a live session that is not complete
    (given the table invariant of C16, which every operation sequence maintains) -/
theorem gate (t : Table) (hi : C16.TInv t) (he : t.isEmpty = false) (ha : t.allComplete = false) :
    ∃ s ∈ (viewOf t).live, s.complete = false := by
  rw [C16.view_live]
  have hall : (liveS t.entries).all (·.complete) = false := by rw [← hi.allc]; exact ha
  have : ¬ ∀ s ∈ liveS t.entries, s.complete = true := by
    intro hh
    have : (liveS t.entries).all (·.complete) = true := List.all_eq_true.mpr hh
    rw [hall] at this; exact Bool.noConfusion this
  apply Classical.byContradiction
  intro hcon
  apply this
  intro s hs
  cases hsc : s.complete with
  | true => rfl
  | false => exact absurd ⟨s, hs, hsc⟩ hcon

/-- silent once idle: with an empty session table (reset, expired, or dropped after 30 s without traffic) no tick sends -/
theorem idle_silent (s : TickState) (now : Nat) (hn : now < u64) (hl : s.lastTx ≤ now)
    (hidle : tableEmptyOf (tick s .wired now).1.table = true) : (tick s .wired now).2 = [] := by
  rcases tick_hello s now hn hl with h | h
  · exact h.1
  · rw [hidle] at h; exact absurd h.2.2.2.2.1 (by simp)

/-! ## Pacing over every schedule

  A schedule is any sequence of: a tick at the current time, a clock advance, or ANY other operation on the
  automata / table / RepeatBand state that leaves the last-transmit time stamp alone (the Darwin wiring: only
  automata_tick writes it).  This covers every glue flow built from the public calls and direct field writes. -/

inductive Op where
  | tick
  | advance (ms : Nat)
  | other (f : TickState → TickState) (keeps : ∀ s, (f s).lastTx = s.lastTx)

/-- (state, clock) → (state, clock, Hellos sent by this op) -/
def stepOp (s : TickState) (now : Nat) : Op → TickState × Nat × List Nat
  | .tick => ((tick s .wired now).1, now, (tick s .wired now).2)
  | .advance ms => (s, now + ms, [])
  | .other f _ => (f s, now, [])

def runOps (s : TickState) (now : Nat) : List Op → List Nat
  | [] => []
  | op :: rest => (stepOp s now op).2.2 ++ runOps (stepOp s now op).1 (stepOp s now op).2.1 rest

def clockBound (now : Nat) : List Op → Nat
  | [] => now
  | .advance ms :: rest => clockBound (now + ms) rest
  | _ :: rest => clockBound now rest

/-- only the tick sends -/
theorem only_tick (s : TickState) (now : Nat) (op : Op) (h : ∀ (hp : op = .tick), False) : (stepOp s now op).2.2 = [] := by
  cases op with
  | tick => exact absurd rfl (fun hp => h hp)
  | advance ms => rfl
  | other f k => rfl

theorem paced_of (last : Option Nat) (now : Nat) (ops : List Op) (s : TickState)
    (hlast : s.lastTx = last.getD 0) (hle : s.lastTx ≤ now) (hpos : ∀ l, last = some l → 0 < l)
    (hb : clockBound now ops < u64) : paced last (runOps s now ops) = true := by
  induction ops generalizing s now last with
  | nil => cases last <;> rfl
  | cons op rest ih =>
    have hnow : now < u64 := by
      have : ∀ (n : Nat) (l : List Op), n ≤ clockBound n l := by
        intro n l
        induction l generalizing n with
        | nil => exact Nat.le_refl _
        | cons o r ihr =>
          cases o with
          | tick => exact ihr n
          | advance ms => exact Nat.le_trans (Nat.le_add_right n ms) (ihr (n + ms))
          | other f k => exact ihr n
      exact Nat.lt_of_le_of_lt (this now (op :: rest)) hb
    cases op with
    | advance ms =>
      simp only [runOps, stepOp, List.nil_append]
      exact ih last (now + ms) s hlast (by omega) hpos hb
    | other f k =>
      simp only [runOps, stepOp, List.nil_append]
      exact ih last now (f s) (by rw [k]; exact hlast) (by rw [k]; exact hle) hpos hb
    | tick =>
      simp only [runOps, stepOp]
      rcases tick_hello s now hnow hle with h | h
      · rw [h.1, List.nil_append]
        exact ih last now _ (by rw [h.2]; exact hlast) (by rw [h.2]; exact hle) hpos hb
      · rw [h.1]
        have hrest := ih (some now) now (tick s .wired now).1 (by rw [h.2.1]; rfl) (by rw [h.2.1]; exact Nat.le_refl _)
          (by intro l hl; cases hl; exact h.2.2.1) hb
        cases last with
        | none => simp only [List.singleton_append, paced]; exact hrest
        | some l =>
          simp only [List.singleton_append, paced, Bool.and_eq_true, decide_eq_true_eq]
          refine ⟨?_, hrest⟩
          have hl0 := hpos l rfl
          simp only [Option.getD] at hlast
          rcases h.2.2.2.1 with hz | hge
          · omega
          · omega

/-- PACING: however ticks, clock advances and any other operations interleave, two periodic Hellos on one
    interface are never less than one second apart -/
theorem pace (ops : List Op) (s : TickState) (now : Nat) (h0 : s.lastTx = 0) (hb : clockBound now ops < u64) :
    paced none (runOps s now ops) = true :=
  paced_of none now ops s (by rw [h0]; rfl) (by rw [h0]; exact Nat.zero_le _) (by intro l hl; cases hl) hb

/-- non-vacuity: a session that is not complete, Pausing, deadline passed: the tick sends, and one tick later it does not -/
example :
    let t := (Table.create.add [2,0,0,0,0,1] 1 1 0).1
    let s : TickState := { mapping := none, enum := some (⟨1, 0⟩, some { ni := 45, r := 0, begun := false, helloTs := 120, blockTs := 300 }),
                           table := some t, lastTx := 0 }
    (tick s .wired 5000).2 = [5000] ∧ (tick (tick s .wired 5000).1 .wired 5100).2 = [] := by
  decide

end LLTD.C12
