import LLTD.Model.Event
import LLTD.Spec.Table
import LLTD.Spec.Event
import LLTD.Spec.Tick
import LLTD.Lemmas.Table

namespace LLTD.C12
open LLTD LLTD.Spec

theorem table_size : X.maxEntries = 16 := by decide

end LLTD.C12
