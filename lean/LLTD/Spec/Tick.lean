/-
  C12 — pacing, purpose and silence of periodic Hellos, as a predicate over the
  observable sequence of one interface: every operation with the periodic
  Hellos it caused, the clock, and (for ticks) whether the session table held a
  live incomplete session when the tick returned.  Literal 1000 = one second.
-/
namespace LLTD.Spec

structure TickEv where
  isTick     : Bool
  hellos     : List Nat        -- times (ms) of the periodic Hellos this operation sent
  incomplete : Bool            -- (ticks) a live session that is not complete exists
deriving Repr, DecidableEq, Inhabited

/-- consecutive Hello times at least one second apart -/
def paced : Option Nat → List Nat → Bool
  | _, [] => true
  | none, t :: rest => paced (some t) rest
  | some l, t :: rest => decide (l + 1000 ≤ t) && paced (some t) rest

def holdsC12 (evs : List TickEv) : Bool :=
  evs.all (fun e => if e.isTick then (e.hellos.isEmpty || e.incomplete) else e.hellos.isEmpty) &&
  paced none (evs.flatMap (·.hellos))

end LLTD.Spec
