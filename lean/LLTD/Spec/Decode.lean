/-
  Independent byte-level decoder of LLTD frames, written from the MS-LLTD
  layout as literals (EtherType 0x88D9, demultiplex header of 32 bytes: version
  14, type of service 15, reserved 16, opcode 17, real destination 18..23, real
  source 24..29, sequence 30..31).  Shares no definition with the model's
  encoders; used by the property predicates.
-/
import LLTD.Model.Bytes

namespace LLTD.Spec

structure Base where
  ethDst  : List Nat
  ethSrc  : List Nat
  etherType : Nat
  version : Nat
  tos     : Nat
  reserved : Nat
  opcode  : Nat
  realDst : List Nat
  realSrc : List Nat
  seq     : Nat
deriving Repr, DecidableEq

def decodeBase (f : List Nat) : Option Base :=
  if f.length < 32 then none else
  some { ethDst := slice f 0 6, ethSrc := slice f 6 6, etherType := unbe (slice f 12 2), version := byteAt f 14,
         tos := byteAt f 15, reserved := byteAt f 16, opcode := byteAt f 17, realDst := slice f 18 6,
         realSrc := slice f 24 6, seq := unbe (slice f 30 2) }

/-- property list of a Hello: (type, value) pairs up to the end marker 0, which must be the last byte -/
def parseTlvs : Nat → List Nat → Option (List (Nat × List Nat))
  | 0, _ => none
  | _ + 1, [] => none
  | _ + 1, [0] => some []
  | _ + 1, 0 :: _ :: _ => none
  | _ + 1, [_] => none
  | fuel + 1, t :: l :: rest =>
    if rest.length < l then none else
    match parseTlvs fuel (rest.drop l) with
    | some ps => some ((t, rest.take l) :: ps)
    | none => none

/-- legal value lengths per property type (MS-LLTD 2.2.2.3; literals) -/
def legalLen (t l : Nat) : Bool :=
  match t with
  | 1 => l == 6      -- host id
  | 2 => l == 4      -- characteristics
  | 3 => l == 4      -- physical medium
  | 4 => l == 1      -- wireless mode
  | 5 => l == 6      -- BSSID
  | 6 => decide (l ≤ 32)   -- SSID
  | 7 => l == 4      -- IPv4
  | 8 => l == 16     -- IPv6
  | 9 => l == 2      -- max rate
  | 10 => l == 8     -- perf counter frequency
  | 12 => l == 4     -- link speed
  | 13 => l == 4     -- RSSI
  | 14 => l == 0     -- icon image (large: length 0 in Hello)
  | 15 => decide (l ≤ 32)  -- machine name
  | 16 => decide (l ≤ 64)  -- support URL
  | 17 => l == 0     -- friendly name (large)
  | 18 => l == 16    -- UPnP UUID
  | 19 => decide (l ≤ 64)  -- hardware id
  | 20 => l == 4     -- QoS characteristics
  | _ => false

def noDupTypes : List (Nat × List Nat) → Bool
  | [] => true
  | p :: rest => !(rest.any (fun q => q.1 == p.1)) && noDupTypes rest

def helloWellFormed (f : List Nat) : Bool :=
  decide (f.length ≥ 47) &&
  match parseTlvs f.length (f.drop 46) with
  | some ps =>
    (match ps with | p :: _ => p.1 == 1 | [] => false) &&
    ps.all (fun p => legalLen p.1 p.2.length) && noDupTypes ps
  | none => false

/-- C02, first sentence: a well-formed LLTD frame a responder may send, no longer than the MTU -/
def wellFormed (own : List Nat) (mtu : Nat) (f : List Nat) : Bool :=
  match decodeBase f with
  | none => false
  | some b =>
    decide (f.length ≤ mtu) && b.etherType == 0x88D9 && b.version == 1 && b.reserved == 0 && b.realSrc == own &&
    (if b.opcode = 3 ∨ b.opcode = 4 ∨ b.opcode = 5 then f.length == 32
     else if b.opcode = 7 then decide (f.length ≥ 34) && f.length == 34 + 20 * (unbe (slice f 32 2) % 16384)
     else if b.opcode = 12 then decide (f.length ≥ 34) && f.length == 34 + (unbe (slice f 32 2) % 16384)
     else if b.opcode = 1 then helloWellFormed f
     else false)

structure HelloHdr where
  base : Base
  generation : Nat
  currentMapper : List Nat
  apparentMapper : List Nat
  tlvs : List (Nat × List Nat)
deriving Repr, DecidableEq

def decodeHello (f : List Nat) : Option HelloHdr :=
  match decodeBase f with
  | none => none
  | some b =>
    if b.opcode ≠ 1 ∨ f.length < 47 then none else
    match parseTlvs f.length (f.drop 46) with
    | some ps => some { base := b, generation := unbe (slice f 32 2), currentMapper := slice f 34 6,
                        apparentMapper := slice f 40 6, tlvs := ps }
    | none => none

structure ObsDesc where
  typ : Nat
  realSrc : List Nat
  src : List Nat
  dst : List Nat
deriving Repr, DecidableEq

structure QueryResp where
  base  : Base
  more  : Bool
  descs : List ObsDesc
deriving Repr, DecidableEq

def decodeQueryResp (f : List Nat) : Option QueryResp :=
  match decodeBase f with
  | none => none
  | some b =>
    if b.opcode ≠ 7 ∨ f.length < 34 then none else
    let w := unbe (slice f 32 2)
    let n := w % 16384
    if f.length ≠ 34 + 20 * n then none else
    some { base := b, more := decide (w ≥ 32768),
           descs := (List.range n).map (fun i =>
             { typ := unbe (slice f (34 + 20 * i) 2), realSrc := slice f (36 + 20 * i) 6,
               src := slice f (42 + 20 * i) 6, dst := slice f (48 + 20 * i) 6 }) }

structure LargeResp where
  base : Base
  more : Bool
  payload : List Nat
deriving Repr, DecidableEq

def decodeLargeResp (f : List Nat) : Option LargeResp :=
  match decodeBase f with
  | none => none
  | some b =>
    if b.opcode ≠ 12 ∨ f.length < 34 then none else
    let w := unbe (slice f 32 2)
    if f.length ≠ 34 + w % 16384 then none else
    some { base := b, more := decide (w ≥ 32768), payload := f.drop 34 }

end LLTD.Spec
