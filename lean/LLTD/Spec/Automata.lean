/-
  The automata-side properties (C13, C14, C15) as executable predicates over
  observations: (state before, input, time, state after).  These are the
  property statements; they mention the documented literals (state numbers,
  opcodes, session events, RepeatBand constants), not the extracted tables.
  The same predicates are proved of the model (Props/) and evaluated by the
  driver on the implementation's transcripts.
-/
import LLTD.Model.Automata

namespace LLTD.Spec

/-! ## C14 — mapping engine.  States: 0 idle (Quiescent), 1 Command, 2 Emit.
    Frame inputs are opcodes (Discover 0, Emit 2, Reset 8); internal inputs:
    -1 time-out, -3 emission complete. -/

def mapSpec (s : Nat) (i : Int) : Nat :=
  match s with
  | 0 => if i = 0 then 1 else 0
  | 1 => if i = 8 ∨ i = -1 then 0 else if i = 2 then 2 else 1
  | 2 => if i = 8 ∨ i = -1 then 0 else if i = -3 then 1 else 2
  | s => s

/-- one observed call of the mapping engine's transition function.
    `tmo` = the state's timeout (seconds, 0 = none). -/
def holdsC14Step (tmo : Nat) (pre post : Fsm) (i : Int) (now : Nat) : Bool :=
  decide (post.lastTs = now) &&
  (if tmo = 0 ∨ diff64 now pre.lastTs ≤ tmo then decide (post.state = mapSpec pre.state i)
   else decide (post.state = 0) || (decide (i = 0) && decide (post.state = 1)))

/-- timeouts: idle has none, the active states have a non-zero one of at most 30 s -/
def holdsC14Timeouts (tos : List Nat) : Bool :=
  decide (tos.getD 0 0 = 0) && decide (0 < tos.getD 1 0 ∧ tos.getD 1 0 ≤ 30) && decide (0 < tos.getD 2 0 ∧ tos.getD 2 0 ≤ 30)

/-- the tick-driven clause: after the 30 s inactivity deadline the tick ends the
    session, clears the charge counter and empties the session table -/
def holdsC14Tick (preInact : Nat) (nowS : Nat) (post : Fsm) (postM : MapState) (postTableLive : Nat) : Bool :=
  if preInact ≠ 0 ∧ nowS ≥ preInact then
    decide (post.state = 0) && decide (postM.ctc = 0) && decide (postM.chargeTs = 0) && decide (postM.inactTs = 0) && decide (postTableLive = 0)
  else true

/-- mapping_reset_inactive_timeout: the deadline is 30 s from now -/
def holdsC14Deadline (nowS : Nat) (postM : MapState) : Bool := decide (postM.inactTs = nowS + 30)

/-! ## C15 — session automaton.  States: 0 Temporary, 1 Nascent, 2 Pending, 3 Complete.
    Events: 0 conflicting, 1 reset, 2 noack, 3 acking, 4 noack-changed, 5 acking-changed,
    6 topology reset, 7 hello, -1 expiry. -/

def sessSpec (s : Nat) (e : Int) : Nat :=
  match s with
  | 1 => if e = 2 then 2 else if e = 3 then 3 else if e = 0 then 0 else 1
  | 2 => if e = 3 ∨ e = 5 then 3 else if e = 1 ∨ e = -1 then 1 else 2
  | 3 => if e = 4 then 2 else if e = 1 ∨ e = -1 then 1 else 3
  | 0 => if e = 1 ∨ e = 6 ∨ e = 7 ∨ e = -1 then 1 else 0
  | s => s

def isSessEvent (e : Int) : Bool := decide (e = -1) || (decide (0 ≤ e) && decide (e ≤ 7))

/-- one observed call; inputs outside the session-event alphabet are unconstrained -/
def holdsC15Step (tmo : Nat) (pre post : Fsm) (e : Int) (now : Nat) : Bool :=
  if !isSessEvent e then true else
  if tmo = 0 ∨ diff64 now pre.lastTs ≤ tmo then decide (post.state = sessSpec pre.state e)
  else decide (post.state = 1)    -- expiry returns every state to Nascent; the input that found the session expired is not acted on

/-! ## C13 — RepeatBand (documented constants NMAX = 10000, ALPHA = 45, BETA = 2). -/

def niFormula (r : Nat) : Nat := min 10000 (45 * r ^ 2)

/-- band_update_stats observed: `pre`, `post` -/
def holdsC13Update (pre post : Band) : Bool :=
  decide (post.r = 0) &&          -- r counts the Hellos of ONE block: every block end restarts it
  (if pre.r > 0 ∧ pre.begun then decide (post.ni = niFormula pre.r) else decide (post.ni = pre.ni)) &&
  (if 45 ≤ pre.ni ∧ pre.ni ≤ 10000 then decide (45 ≤ post.ni ∧ post.ni ≤ 10000) else true)

/-- the load formula: ceil(TXC * Ni * frame_time / GAMMA) ms with TXC = 4, frame time 20/3 ms, GAMMA = 10 -/
def loadInterval (ni : Nat) : Nat := (4 * ni * 20 + 29) / 30

/-- band_choose_hello_time observed: the Hello is scheduled no sooner than the load formula allows -/
def holdsC13Choose (pre post : Band) (nowMs : Nat) : Bool :=
  decide (post.helloTs ≥ nowMs + loadInterval pre.ni) && decide (post.ni = pre.ni)

/-- band_on_hello_received observed: r counts the Hellos heard in the block — each one, without wrap-around below 2^32 — and the
    count and the schedule are left alone -/
def holdsC13Heard (pre post : Band) : Bool :=
  (decide (post.r = pre.r + 1) || decide (pre.r = 4294967295)) && decide (post.ni = pre.ni) && decide (post.helloTs = pre.helloTs)

/-- automata_tick observed on the RepeatBand state: when the tick ends a block (the block deadline is re-armed to
    now + 300 ms) the count follows the formula and the next Hello is scheduled no sooner than the load formula
    for the NEW count allows — also when the same tick has just sent a Hello -/
def holdsC13Tick (pre post : Band) (nowMs : Nat) : Bool :=
  if post.blockTs = nowMs + 300 ∧ post.blockTs ≠ pre.blockTs then
    decide (post.r = 0) &&
    (decide (post.ni = niFormula pre.r) || decide (post.ni = pre.ni)) &&
    (if pre.r > 0 ∧ pre.begun then decide (post.ni = niFormula pre.r) else true) &&
    decide (post.helloTs ≥ nowMs + loadInterval post.ni)
  else true

/-- monotonicity over two observed block ends after enumeration began -/
def holdsC13Mono (r1 ni1 r2 ni2 : Nat) : Bool :=
  if r1 ≤ r2 then decide (ni1 ≤ ni2) else true

end LLTD.Spec
