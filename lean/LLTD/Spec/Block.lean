/-
  Frame-handling properties (C02–C10, C19) as executable predicates over the
  observable trace of one interface: each received frame with the platform
  attributes current at that moment and the port calls (sleeps, transmits) it
  caused.  The predicates fold an abstract SPECIFICATION state over the inputs
  (active mapper, observations not yet reported, icon cached since the last
  Reset) — never model internals — and use the independent decoder.
  Offsets / opcodes / bounds are MS-LLTD literals.
-/
import LLTD.Model.Block
import LLTD.Spec.Decode

namespace LLTD.Spec

inductive FxObs where
  | sleep (ms : Nat)
  | tx (ok : Bool) (f : List Nat)
deriving Repr, DecidableEq

structure RxObs where
  cfg   : Cfg
  glob  : Glob
  frame : List Nat
  fx    : List FxObs
  live  : Nat := 0        -- ledger after the frame: live blocks, bytes (whole process)
  bytes : Nat := 0
  allocFault : Bool := false   -- an allocation-fault schedule was active while this frame was handled (the platform may have refused memory)
deriving Repr, DecidableEq

def sends (fx : List FxObs) : List (List Nat) := fx.filterMap (fun x => match x with | .tx _ f => some f | _ => none)

def fTos (f : List Nat) : Nat := byteAt f 15
def fOp (f : List Nat) : Nat := byteAt f 17
def fEthDst (f : List Nat) : List Nat := slice f 0 6
def fEthSrc (f : List Nat) : List Nat := slice f 6 6
def fRealDst (f : List Nat) : List Nat := slice f 18 6
def fRealSrc (f : List Nat) : List Nat := slice f 24 6
def fSeq (f : List Nat) : Nat := unbe (slice f 30 2)

def isDiscover (f : List Nat) : Bool := decide (f.length ≥ 36) && decide (fTos f ≤ 1) && fOp f == 0
def isReset (f : List Nat) : Bool := decide (f.length ≥ 32) && decide (fTos f ≤ 1) && fOp f == 8
def isReset0 (f : List Nat) : Bool := decide (f.length ≥ 32) && fTos f == 0 && fOp f == 8
def isEmit (f : List Nat) : Bool := decide (f.length ≥ 34) && fTos f == 0 && fOp f == 2
def isQuery (f : List Nat) : Bool := decide (f.length ≥ 32) && fTos f == 0 && fOp f == 6
def isLarge (f : List Nat) : Bool := decide (f.length ≥ 36) && decide (fTos f ≤ 1) && fOp f == 11
def isProbe (f : List Nat) : Bool := decide (f.length ≥ 32) && fTos f == 0 && (fOp f == 3 || fOp f == 4)

/-! ## Specification state -/

inductive Mapper where
  | none
  | active (real apparent : List Nat)
  | unknown           -- a stranger issued a command while a mapper was active: unconstrained until the next Reset
deriving Repr, DecidableEq

structure SpecSt where
  mapper    : Mapper := .none
  pending   : List ObsDesc := []      -- observations recorded and not yet reported
  overflow  : Bool := false           -- more than `dom` distinct observations were pending at once: outside C07's domain until the next topology Reset
  iconCache : Option (List Nat) := none
deriving Repr, DecidableEq

def Mapper.onCommand (m : Mapper) (real apparent : List Nat) (refreshApparent : Bool) : Mapper :=
  match m with
  | .none => .active real apparent
  | .active r a => if r == real then .active r (if refreshApparent then apparent else a) else .unknown
  | .unknown => .unknown

def obsKey (o : ObsDesc) : List Nat × List Nat := (o.src, o.realSrc)

def removeFirst (x : ObsDesc) : List ObsDesc → List ObsDesc
  | [] => []
  | y :: ys => if x == y then ys else y :: removeFirst x ys

/-- evolution of the specification state over one received frame; `reported` = the observations the
    responder listed in its QueryResp (what the mapper now knows); `dom` = how many distinct observations
    may be pending before a further one is dropped (C07's domain: 300; C19: the implementation's cap) -/
def specStep (own : List Nat) (dom : Nat) (g : Glob) (s : SpecSt) (f : List Nat) (reported : List ObsDesc) : SpecSt :=
  if f.length < 32 then s else
  if isReset0 f then { mapper := .none, pending := [], overflow := false, iconCache := none }
  else if isReset f then { s with mapper := .none }
  else if isDiscover f then
    { s with mapper := match s.mapper with | .none => .active (fRealSrc f) (fEthSrc f) | m => m }
  else if isEmit f then { s with mapper := s.mapper.onCommand (fRealSrc f) (fEthSrc f) false }
  else if isQuery f then
    { s with mapper := s.mapper.onCommand (fRealSrc f) (fEthSrc f) true,
             pending := reported.foldl (fun p d => removeFirst d p) s.pending,
             overflow := s.overflow }
  else if isLarge f then
    if fSeq f = 0 then s else
    let s := { s with mapper := s.mapper.onCommand (fRealSrc f) (fEthSrc f) false }
    if byteAt f 32 = 0x0E ∧ s.iconCache.isNone then
      match g.icon with
      | some (b :: bs) => { s with iconCache := some (b :: bs) }
      | some [] => if g.emptyBlock then { s with iconCache := some [] } else s
      | none => s
    else s
  else if isProbe f then
    if fRealDst f != own then s else
    let o : ObsDesc := { typ := if fOp f = 4 then 1 else 0, realSrc := fRealSrc f, src := fEthSrc f, dst := fEthDst f }
    if s.pending.any (fun p => obsKey p == obsKey o) then s
    else if s.pending.length ≥ dom then { s with overflow := true }
    else { s with pending := o :: s.pending }
  else s

def reportedOf (fx : List FxObs) : List ObsDesc :=
  match (sends fx).filterMap decodeQueryResp with
  | r :: _ => r.descs
  | [] => []

/-- the specification states before each frame of a trace -/
def specStatesDom (own : List Nat) (dom : Nat) : SpecSt → List RxObs → List (SpecSt × RxObs)
  | _, [] => []
  | s, r :: rest => (s, r) :: specStatesDom own dom (specStep own dom r.glob s r.frame (reportedOf r.fx)) rest

def specStates (own : List Nat) : SpecSt → List RxObs → List (SpecSt × RxObs) := specStatesDom own 300

/-! ## C02 -/

def isRequest (f : List Nat) : Bool := isDiscover f || isEmit f || isQuery f || isLarge f

def holdsC02Rx (r : RxObs) : Bool :=
  let ss := sends r.fx
  ss.all (fun f => wellFormed r.cfg.mac r.cfg.mtu f) &&
  (ss.isEmpty || isRequest r.frame) &&
  (if isEmit r.frame then decide (ss.length ≤ min (unbe (slice r.frame 32 2)) ((r.cfg.mtu - 34) / 14) + 1)
   else decide (ss.length ≤ 1))

def holdsC02 (t : List RxObs) : Bool := t.all holdsC02Rx

/-! ## C05 / C03 -/

def helloReplies (fx : List FxObs) : List HelloHdr := (sends fx).filterMap decodeHello

/-- reply-or-silence of a Discover as a function of the specification's mapper state -/
def holdsC05Rx (s : SpecSt) (r : RxObs) : Bool :=
  if !isDiscover r.frame then
    -- frames of other services never cause a reply
    if decide (r.frame.length ≥ 32) && decide (fTos r.frame ≥ 2) then (sends r.fx).isEmpty else true
  else
    match s.mapper with
    | .unknown => true
    | .none => (sends r.fx).length == 1 && (helloReplies r.fx).length == 1
    | .active m _ =>
      if fRealSrc r.frame == m then (sends r.fx).length == 1 && (helloReplies r.fx).length == 1
      else (sends r.fx).isEmpty

def holdsC05 (own : List Nat) (t : List RxObs) : Bool := (specStates own {} t).all (fun p => holdsC05Rx p.1 p.2)

/-- the same when the platform may refuse memory: a Hello that cannot be built is not sent — but a stranger is never answered,
    the mapper (or the station that becomes it) gets at most one frame and that frame is a Hello, and who the mapper is does
    not depend on whether the Hello could be built (the specification state is advanced as always) -/
def holdsC05RxF (s : SpecSt) (r : RxObs) : Bool :=
  if !isDiscover r.frame then
    if decide (r.frame.length ≥ 32) && decide (fTos r.frame ≥ 2) then (sends r.fx).isEmpty else true
  else
    match s.mapper with
    | .unknown => true
    | .none => decide ((sends r.fx).length ≤ 1) && (helloReplies r.fx).length == (sends r.fx).length
    | .active m _ =>
      if fRealSrc r.frame == m then decide ((sends r.fx).length ≤ 1) && (helloReplies r.fx).length == (sends r.fx).length
      else (sends r.fx).isEmpty

/-- what `./check C05` evaluates: the exact clause on frames handled without allocation faults, the relaxed one on the others -/
def holdsC05F (own : List Nat) (t : List RxObs) : Bool :=
  (specStates own {} t).all (fun p => if p.2.allocFault then holdsC05RxF p.1 p.2 else holdsC05Rx p.1 p.2)

/-- an accepted Discover is answered by exactly one Hello with these header fields -/
def holdsC03Rx (r : RxObs) : Bool :=
  if !isDiscover r.frame || (sends r.fx).isEmpty then true else
  match sends r.fx with
  | [f] =>
    match decodeHello f with
    | some h =>
      h.base.ethDst == bcast && h.base.realDst == bcast && h.base.ethSrc == r.cfg.mac && h.base.realSrc == r.cfg.mac &&
      h.base.tos == fTos r.frame && h.base.seq == 0 && h.currentMapper == fRealSrc r.frame &&
      h.apparentMapper == fEthSrc r.frame && h.generation == unbe (slice r.frame 32 2)
    | none => false
  | _ => false

def holdsC03 (t : List RxObs) : Bool := t.all holdsC03Rx

/-! ## C04 -/

structure Attrs where
  hostId : Option (List Nat)
  characteristics : Option Nat
  ifType : Option Nat
  ipv4 : Option (List Nat)
  ipv6 : Option (List Nat)
  perf : Option Nat
  speed : Option Nat
  name : Option (List Nat)
  wifiMode : Option Nat
  bssid : Option (List Nat)
  ssid : Option (List Nat)
  rate : Option Nat
  rssi : Option Int
  qos : Option Nat
deriving Repr, DecidableEq

def tlvGet (ps : List (Nat × List Nat)) (t : Nat) : Option (List Nat) := (ps.find? (fun p => p.1 == t)).map (·.2)

/-- a 4-byte big-endian two's-complement value -/
def toInt32 (bs : List Nat) : Int := let v := unbe bs; if v ≥ 2147483648 then (v : Int) - 4294967296 else v

def decodeAttrs (ps : List (Nat × List Nat)) : Attrs :=
  { hostId := tlvGet ps 1, characteristics := (tlvGet ps 2).map unbe, ifType := (tlvGet ps 3).map unbe,
    ipv4 := tlvGet ps 7, ipv6 := tlvGet ps 8, perf := (tlvGet ps 10).map unbe, speed := (tlvGet ps 12).map unbe,
    name := tlvGet ps 15, wifiMode := (tlvGet ps 4).map unbe, bssid := tlvGet ps 5, ssid := tlvGet ps 6,
    rate := (tlvGet ps 9).map unbe, rssi := (tlvGet ps 13).map toInt32, qos := (tlvGet ps 20).map unbe }

/-- what a Hello must say about this interface (failing getters yield the zero value of their field) -/
def expectedAttrs (c : Cfg) (g : Glob) : Attrs :=
  { hostId := some (if c.failMac then zeroMac else c.mac),
    characteristics := some ((c.flags % 65536) * 65536),
    ifType := some (if c.failIfType then 0 else c.iftype),
    ipv4 := some (if c.failIpv4 then [0, 0, 0, 0] else c.ipv4),
    ipv6 := some (if c.failIpv6 then List.replicate 16 0 else c.ipv6),
    perf := some 1000000,
    speed := some (if c.failSpeed then 0 else c.speed),
    name := some (g.host.take 32),
    wifiMode := if c.wifi then some c.mode else none,
    bssid := if c.wifi ∧ ¬ c.failBssid then some c.bssid else none,
    ssid := if c.wifi then some (c.ssid.take 32) else none,
    rate := if c.wifi then some (if c.failRate then 0 else c.rate) else none,
    rssi := if c.wifi then some (if c.failRssi then 0 else c.rssi) else none,
    qos := some 0xE0000000 }

def holdsC04Rx (r : RxObs) : Bool :=
  (helloReplies r.fx).all (fun h => decodeAttrs h.tlvs == expectedAttrs r.cfg r.glob)

def holdsC04 (t : List RxObs) : Bool := t.all holdsC04Rx

/-! ## C06 -/

structure Desc where
  kind : Nat
  pause : Nat
  src : List Nat
  dst : List Nat
deriving Repr, DecidableEq

def emitDescs (f : List Nat) : List Desc :=
  (List.range (unbe (slice f 32 2))).map (fun i =>
    { kind := byteAt f (34 + 14 * i), pause := byteAt f (35 + 14 * i), src := slice f (36 + 14 * i) 6, dst := slice f (42 + 14 * i) 6 })

/-- the 32-byte frame a responder `own` emits for descriptor `d` -/
def probeFrameSpec (own : List Nat) (d : Desc) : List Nat :=
  d.dst ++ d.src ++ [0x88, 0xD9, 1, 0, 0, if d.kind = 1 then 4 else 3] ++ d.dst ++ own ++ [0, 0]

def ackFrameSpec (own real apparent : List Nat) (seq : Nat) : List Nat :=
  apparent ++ own ++ [0x88, 0xD9, 1, 0, 0, 5] ++ real ++ own ++ be 2 seq

def holdsC06Rx (s : SpecSt) (r : RxObs) : Bool :=
  if !isEmit r.frame then true else
  -- bound clause: whatever the declared count
  decide ((sends r.fx).length ≤ (r.cfg.mtu - 34) / 14 + 1) &&
  (match s.mapper with
   | .active m a =>
     let ds := emitDescs r.frame
     if fRealSrc r.frame == m && decide (ds.length ≥ 1) && decide (34 + 14 * ds.length ≤ r.frame.length) && ds.all (fun d => decide (d.kind ≤ 1)) then
       r.fx == ds.flatMap (fun d => [FxObs.sleep d.pause, FxObs.tx true (probeFrameSpec r.cfg.mac d)])
                ++ [FxObs.tx true (ackFrameSpec r.cfg.mac m a (fSeq r.frame))]
     else true
   | _ => true)

def holdsC06 (own : List Nat) (t : List RxObs) : Bool := (specStates own {} t).all (fun p => holdsC06Rx p.1 p.2)

/-! ## C07 -/

def subMultiset : List ObsDesc → List ObsDesc → Bool
  | [], _ => true
  | x :: xs, p => p.contains x && subMultiset xs (removeFirst x p)

def holdsC07Rx (s : SpecSt) (r : RxObs) : Bool :=
  if !isQuery r.frame then
    -- a Probe/Train/anything else never triggers a QueryResp
    ((sends r.fx).filterMap decodeQueryResp).isEmpty
  else if s.overflow then true else
  match sends r.fx with
  | [f] =>
    match decodeQueryResp f with
    | some q =>
      let maxD := (r.cfg.mtu - 34) / 20
      q.base.seq == fSeq r.frame && q.base.ethSrc == r.cfg.mac &&
      q.base.ethDst == (if fRealSrc r.frame == fEthSrc r.frame then fRealSrc r.frame else bcast) &&
      q.base.realDst == q.base.ethDst &&
      subMultiset q.descs s.pending &&
      q.descs.length == min s.pending.length maxD &&
      (q.more == decide (q.descs.length < s.pending.length))
    | none => false
  | _ => false

def holdsC07 (own : List Nat) (t : List RxObs) : Bool := (specStates own {} t).all (fun p => holdsC07Rx p.1 p.2)

/-- while the platform refuses memory a Query may go UNANSWERED - but then nothing was reported, the specification keeps
    every pending observation (`reportedOf` of no frame is empty), and the next answer is judged against all of them:
    an observation is never lost to a response that could not be built (round 13, seeded change C07_n) -/
def holdsC07RxF (s : SpecSt) (r : RxObs) : Bool :=
  if isQuery r.frame && (sends r.fx).isEmpty then true else holdsC07Rx s r

def holdsC07F (own : List Nat) (t : List RxObs) : Bool :=
  (specStates own {} t).all (fun p => if p.2.allocFault then holdsC07RxF p.1 p.2 else holdsC07Rx p.1 p.2)

/-! ## C08 -/

/-- bytes `off .. off+P` of `data` and whether bytes remain beyond them -/
def chunk (p : Nat) (data : List Nat) (off : Nat) : List Nat × Bool := ((data.drop off).take p, decide (data.length > off + p))

/-- a hardware identifier as MS-LLTD defines it: UCS-2LE, at most 64 bytes, no embedded NUL character -/
def hwIdWellFormed (h : List Nat) : Bool :=
  decide (h.length ≤ 64) && h.length % 2 == 0 &&
  (List.range (h.length / 2)).all (fun i => !(byteAt h (2 * i) == 0 && byteAt h (2 * i + 1) == 0))

def holdsC08Rx (s : SpecSt) (r : RxObs) : Bool :=
  if !isLarge r.frame then ((sends r.fx).filterMap decodeLargeResp).isEmpty else
  if fSeq r.frame = 0 then (sends r.fx).isEmpty else
  let ty := byteAt r.frame 32
  let off := unbe (slice r.frame 34 2)
  let data : Option (List Nat) :=
    if ty = 0x0E then
      some (match s.iconCache with
            | some c => c
            | none => match r.glob.icon with | some d => d | none => [])
    else if ty = 0x11 then some (match r.glob.fname with | some d => d | none => [])
    else if ty = 0x13 then (if hwIdWellFormed r.glob.hwid then some r.glob.hwid else none)
    else some []
  match data with
  | none => true          -- identifier outside the port contract: unconstrained
  | some d =>
    match sends r.fx with
    | [f] =>
      match decodeLargeResp f with
      | some q =>
        let c := chunk (r.cfg.mtu - 34) d off
        decide (f.length ≤ r.cfg.mtu) && q.base.seq == fSeq r.frame && q.payload == c.1 && q.more == c.2 &&
        q.base.ethSrc == r.cfg.mac &&
        q.base.ethDst == (if fRealSrc r.frame == fEthSrc r.frame then fRealSrc r.frame else bcast)
      | none => false
    | _ => false

def holdsC08 (own : List Nat) (t : List RxObs) : Bool := (specStates own {} t).all (fun p => holdsC08Rx p.1 p.2)

/-- reassembly as a mapper does it: start at 0, advance by the returned length until `more` clears -/
def reassemble (p : Nat) (data : List Nat) : Nat → Nat → List Nat
  | 0, _ => []
  | fuel + 1, off =>
    let c := chunk p data off
    if c.2 then c.1 ++ reassemble p data fuel (off + c.1.length) else c.1

/-! ## C09 / C18 (recovery clause): paired observations -/

/-- the reaction of the reset instance and of a fresh instance to the same frame -/
def holdsPair (a b : List FxObs) : Bool := a == b

/-! ## C10 -/

/-- every Probe/Train that responder `a` was ordered to emit towards station `b` (and that was delivered
    to `b`) shows up in what `b` reports, with `a` as its real source -/
def holdsC10 (aMac bMac : List Nat) (descs : List Desc) (reported : List ObsDesc) : Bool :=
  (descs.filter (fun d => decide (d.kind ≤ 1) && d.dst == bMac)).all (fun d =>
    reported.any (fun o => o.realSrc == aMac && o.src == d.src && o.dst == bMac))

/-! ## C19 -/

/-- after a frame the process retains exactly: one record per interface that has seen a frame, the
    observations not yet reported, and a cached icon (ledger of the verification port) -/
def expectedLive (sts : List SpecSt) : Nat :=
  sts.foldl (fun n s => n + 1 + s.pending.length + (match s.iconCache with | some _ => 1 | none => 0)) 0

def expectedBytes (recBytes nodeBytes : Nat) (sts : List SpecSt) : Nat :=
  sts.foldl (fun n s => n + recBytes + nodeBytes * s.pending.length + (match s.iconCache with | some c => c.length | none => 0)) 0

end LLTD.Spec
