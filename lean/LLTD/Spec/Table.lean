/-
  C16 — session-table consistency as a predicate on observable views:
  (view before, operation, return value, time, view after), against the
  dictionary semantics key = (mapper address, generation) ↦ (seq, complete, last activity).
  Literal 16 = documented table size, 60 = documented idle limit (s).
-/
import LLTD.Model.Automata

namespace LLTD.Spec

/-- what the property talks about for one live session -/
structure Sess where
  mac : Mac
  gen : Nat
  seq : Nat
  complete : Bool
  last : Nat
deriving Repr, DecidableEq

structure TView where
  count : Nat
  allc  : Bool
  empty : Bool
  live  : List Sess
deriving Repr, DecidableEq

def Sess.key (s : Sess) : Mac × Nat := (s.mac, s.gen)

def noDupKeys : List Sess → Bool
  | [] => true
  | s :: rest => !(rest.any (fun x => x.key == s.key)) && noDupKeys rest

/-- the invariant part: one session per key, at most 16, count and both flags truthful -/
def viewOk (v : TView) : Bool :=
  noDupKeys v.live && decide (v.live.length ≤ 16) && decide (v.count = v.live.length) &&
  (v.empty == v.live.isEmpty) && (v.allc == v.live.all (·.complete))

/-- a session survives the expiry sweep at `nowS` iff it was active within the last 60 s -/
def fresh (nowS : Nat) (s : Sess) : Bool := decide (nowS ≤ s.last + 60)

def sameSet (a b : List Sess) : Bool := a.all (fun x => b.contains x) && b.all (fun x => a.contains x)

inductive TOp where
  | add (mac : Mac) (gen seq : Nat)
  | find (mac : Mac) (gen : Nat)
  | remove (mac : Mac) (gen : Nat)
  | clear
  | complete (mac : Mac) (gen : Nat)
  | expire            -- the tick's expiry sweep
  | other             -- clock advance, status recomputation, dump: nothing may change
deriving Repr, DecidableEq

/-- `found` = the operation returned an entry (add / find) -/
def holdsC16 (pre post : TView) (op : TOp) (found : Bool) (nowS : Nat) : Bool :=
  viewOk post &&
  match op with
  | .add mac gen seq =>
    if pre.live.any (fun s => s.key == (mac, gen)) then
      found && sameSet post.live (pre.live.map (fun s => if s.key == (mac, gen) then { s with seq := seq, last := nowS } else s))
    else if pre.live.length ≥ 16 then
      !found && sameSet post.live pre.live
    else
      found && sameSet post.live ({ mac := mac, gen := gen, seq := seq, complete := false, last := nowS } :: pre.live)
  | .find mac gen => (found == pre.live.any (fun s => s.key == (mac, gen))) && sameSet post.live pre.live
  | .remove mac gen => sameSet post.live (pre.live.filter (fun s => s.key != (mac, gen)))
  | .clear => post.live.isEmpty
  | .complete mac gen => sameSet post.live (pre.live.map (fun s => if s.key == (mac, gen) then { s with complete := true } else s))
  | .expire => sameSet post.live (pre.live.filter (fresh nowS))
  | .other => sameSet post.live pre.live

/-- the view of a model table -/
def sessOf (e : Entry) : Sess := { mac := e.mac, gen := e.gen, seq := e.seq, complete := e.complete, last := e.last }

def viewOf (t : Table) : TView :=
  { count := t.count, allc := t.allComplete, empty := t.isEmpty, live := (t.entries.filter (·.valid)).map sessOf }

end LLTD.Spec
