/-
  C11 — classification of a received frame into a session event, as a predicate
  over (frame bytes the classifier was given, live sessions, own address, result).
  Offsets and codes are the documented MS-LLTD literals: opcode at byte 17, real
  destination 18..23, real source 24..29, sequence number 30..31, generation
  32..33, station count 34..35, station list from 36 in 6-byte steps.
-/
import LLTD.Model.Bytes
import LLTD.Spec.Table

namespace LLTD.Spec

/-- the stations a Discover lists: as many as the count field says and the frame holds -/
def stationsHeld (f : List Nat) : List (List Nat) :=
  let declared := unbe (slice f 34 2)
  let held := min declared ((f.length - 36) / 6)
  (List.range held).map (fun i => slice f (36 + 6 * i) 6)

def holdsC11 (f : List Nat) (sessions : List Sess) (our : List Nat) (ev : Int) : Bool :=
  if f.length < 32 then true else
  let op := byteAt f 17
  if op = 8 then decide (ev = if slice f 18 6 == bcast then 6 else 1)
  else if op = 1 then decide (ev = 7)
  else if op = 0 then
    if f.length < 36 then true else
    let declared := unbe (slice f 34 2)
    let mapper := slice f 24 6
    let gen := unbe (slice f 32 2)
    let xid := unbe (slice f 30 2)
    let changed := match sessions.find? (fun s => s.mac == mapper && s.gen == gen) with
      | some s => s.seq != xid
      | none => false
    let isAck := decide (ev = 3) || decide (ev = 5)
    let isChg := decide (ev = 4) || decide (ev = 5)
    (decide (ev = 2) || decide (ev = 3) || decide (ev = 4) || decide (ev = 5)) &&
    (isChg == changed) &&
    (if declared ≥ 1 then isAck == (stationsHeld f).contains our else true)
  else decide (ev = -1)

end LLTD.Spec
