/-
  `driver check <Cxx> <transcript>`: evaluates the property predicates of
  LLTD/Spec on a transcript (normally the IMPLEMENTATION's).  The predicates are
  the ones the theorems of LLTD/Props are about; this file only parses the
  transcript into their arguments (trusted glue, kept dumb).
  Output: one line per case, `case <id> OK` or `case <id> FAIL <op index> <message>`.
-/
import LLTD.Spec.Automata
import LLTD.Spec.Table
import LLTD.Spec.Event
import LLTD.Spec.Tick
import LLTD.Spec.Block
import Driver.Block

import Driver.Parse

open LLTD LLTD.Spec

namespace Driver.Check

/-- "k=v" fields of an output line -/
def fields (toks : List String) : List (String × String) := toks.filterMap splitKV

def getNat (fs : List (String × String)) (k : String) : Option Nat := (fs.lookup k).bind parseDec

structure TblView where
  count : Nat
  allc  : Bool
  empty : Bool
  live  : List (Nat × Entry)      -- (slot, entry)

structure Seen where
  clock : Nat := 0
  kind  : List (Nat × String) := []
  fsm   : List (Nat × Fsm) := []
  map   : List (Nat × MapState) := []
  band  : List (Nat × Band) := []
  tbl   : List (Nat × TblView) := []
  lastTx : List (Nat × Nat) := []
  specLast : List (Nat × Nat) := []   -- time (s) of the last input each automaton was given, as the checker saw it

def upd {α} (l : List (Nat × α)) (k : Nat) (v : α) : List (Nat × α) := (k, v) :: l.filter (fun p => p.1 != k)

def parseEntryLine (toks : List String) : Option (Nat × Entry) :=
  match toks with
  | "e" :: slot :: mac :: rest =>
    let fs := fields rest
    match parseDec slot, parseFixed mac 6, getNat fs "gen", getNat fs "seq", getNat fs "state", getNat fs "complete", getNat fs "last", getNat fs "created" with
    | some s, some m, some g, some q, some st, some c, some l, some cr =>
      some (s, { mac := m, gen := g, seq := q, state := st, complete := c == 1, valid := true, last := l, created := cr })
    | _, _, _, _, _, _, _, _ => none
  | _ => none

/-- fold the output lines of one op into the observed state -/
def absorb (s : Seen) (out : List String) : Seen :=
  let rec go (s : Seen) (curTbl : Option Nat) : List String → Seen
    | [] => s
    | l :: rest =>
      let toks := tokens l
      match toks with
      | ["now", n] => go { s with clock := (parseDec n).getD s.clock } none rest
      | "fsm" :: a :: kv =>
        match parseDec a, getNat (fields kv) "state", getNat (fields kv) "last" with
        | some A, some st, some la => go { s with fsm := upd s.fsm A { state := st, lastTs := la } } none rest
        | _, _, _ => go s none rest
      | "map" :: a :: kv =>
        match parseDec a, getNat (fields kv) "ctc", getNat (fields kv) "charge", getNat (fields kv) "inact" with
        | some A, some c, some ch, some ia => go { s with map := upd s.map A { ctc := c, chargeTs := ch, inactTs := ia } } none rest
        | _, _, _, _ => go s none rest
      | "band" :: a :: kv =>
        let fs := fields kv
        match parseDec a, getNat fs "Ni", getNat fs "r", getNat fs "begun", getNat fs "hello", getNat fs "block" with
        | some A, some ni, some r, some bg, some h, some b =>
          go { s with band := upd s.band A { ni := ni, r := r, begun := bg == 1, helloTs := h, blockTs := b } } none rest
        | _, _, _, _, _, _ => go s none rest
      | "lasttx" :: a :: [v] =>
        match parseDec a, parseDec v with
        | some A, some x => go { s with lastTx := upd s.lastTx A x } none rest
        | _, _ => go s none rest
      | "tbl" :: t :: kv =>
        let fs := fields kv
        match parseDec t, getNat fs "count", getNat fs "allc", getNat fs "empty" with
        | some T, some c, some a, some e =>
          go { s with tbl := upd s.tbl T { count := c, allc := a == 1, empty := e == 1, live := [] } } (some T) rest
        | _, _, _, _ => go s none rest
      | "e" :: _ =>
        match curTbl, parseEntryLine toks with
        | some T, some ent =>
          match s.tbl.lookup T with
          | some v => go { s with tbl := upd s.tbl T { v with live := v.live ++ [ent] } } curTbl rest
          | none => go s curTbl rest
        | _, _ => go s curTbl rest
      | _ => go s curTbl rest
  go s none out

/-- one op of a case: tokens of the op line, its output lines (without the `end` line) -/
structure Step where
  op  : List String
  out : List String
  live  : Nat := 0       -- the `end live= bytes=` line of the op
  bytes : Nat := 0

abbrev Verdict := Option String     -- none = ok

def firstFail (l : List Verdict) : Verdict := l.findSome? id

/-! ## C13 -/
def checkC13 (steps : List Step) : Option (Nat × String) := Id.run do
  let mut s : Seen := {}
  let mut idx := 0
  let mut pairs : List (Nat × Nat) := []
  -- the Hellos heard in the CURRENT block as the specification counts them (`C13.block_count`): none when an enumeration
  -- starts (band_init_stats, the constructor) and when a block ends, one more per Hello heard; unknown until the first of these
  let mut specR : List (Nat × Nat) := []
  for st in steps do
    let s' := absorb s st.out
    match st.op with
    | ["band", "update", a] =>
      match parseDec a with
      | some A =>
        match s.band.lookup A, s'.band.lookup A with
        | some pre0, some post =>
          let pre : Band := { pre0 with r := (specR.lookup A).getD pre0.r }
          if !holdsC13Update pre post then
            return some (idx, s!"band_update_stats: {pre.r} Hellos heard in this block (the record says r={pre0.r}) begun={pre.begun} Ni {pre.ni} -> {post.ni}, formula gives {niFormula pre.r}")
          if pre.r > 0 && pre.begun then pairs := (pre.r, post.ni) :: pairs
          specR := upd specR A 0
        | _, _ => pure ()
      | none => pure ()
    | ["band", "init", a] =>
      match parseDec a with
      | some A => specR := upd specR A 0
      | none => pure ()
    | ["fsm", "new", a, "enum"] =>
      match parseDec a with
      | some A => specR := upd specR A 0
      | none => pure ()
    | "band" :: "set" :: a :: _ :: r :: _ =>
      match parseDec a, parseDec r with
      | some A, some rv => specR := upd specR A rv            -- a direct field write of the test script
      | _, _ => pure ()
    | ["band", "choose", a] =>
      match parseDec a with
      | some A =>
        match s.band.lookup A, s'.band.lookup A with
        | some pre, some post =>
          if !holdsC13Choose pre post s.clock then
            return some (idx, s!"band_choose_hello_time: Ni={pre.ni} now={s.clock} scheduled {post.helloTs}, load formula allows no sooner than {s.clock + loadInterval pre.ni}")
        | _, _ => pure ()
      | none => pure ()
    | ["band", "heard", a] =>
      match parseDec a with
      | some A =>
        match s.band.lookup A, s'.band.lookup A with
        | some pre, some post =>
          if !holdsC13Heard pre post then
            return some (idx, s!"band_on_hello_received: r {pre.r} -> {post.r} (one Hello heard must add exactly one), Ni {pre.ni} -> {post.ni}")
          match specR.lookup A with
          | some n => specR := upd specR A ((n + 1) % 4294967296)
          | none => pure ()
        | _, _ => pure ()
      | none => pure ()
    | ["tick", _, e, _, _] | ["tickj", _, e, _, _, _, _] =>
      -- `tickj`: the clock moved on while the tick ran; the block's successor is scheduled when it is scheduled, i.e. at the
      -- reading taken THEN (the clock after the op): `C13.tick_schedule_moving`
      let nowSched := if st.op.head? == some "tickj" then s'.clock else s.clock
      match parseDec e with
      | some E =>
        match s.band.lookup E, s'.band.lookup E with
        | some pre0, some post =>
          let pre : Band := { pre0 with r := (specR.lookup E).getD pre0.r }
          if !holdsC13Tick pre post nowSched then
            return some (idx, s!"automata_tick ended a block at {nowSched} ms: {pre.r} Hellos heard in this block (the record says r={pre0.r}) begun={pre.begun} Ni {pre.ni} -> {post.ni}, next Hello at {post.helloTs}, load formula allows no sooner than {nowSched + loadInterval post.ni}")
          if post.blockTs = nowSched + 300 ∧ post.blockTs ≠ pre.blockTs then specR := upd specR E 0
        | _, _ => pure ()
      | none => pure ()
    | _ => pure ()
    s := s'
    idx := idx + 1
  for (r1, n1) in pairs do
    for (r2, n2) in pairs do
      if !holdsC13Mono r1 n1 r2 n2 then
        return some (idx, s!"not monotone: r={r1} gives Ni={n1} but r={r2} gives Ni={n2}")
  return none

/-! ## C14 / C15 -/
def kindOf (s : Seen) (A : Nat) : String := (s.kind.lookup A).getD ""

def noteKind (s : Seen) (op : List String) : Seen :=
  match op with
  | ["fsm", "new", a, k] => match parseDec a with
    | some A => { s with kind := upd s.kind A k, specLast := upd s.specLast A (s.clock / 1000) } | none => s
  | ["fsm", "set", a, _, l] => match parseDec a, parseDec l with
    | some A, some l => { s with specLast := upd s.specLast A l } | _, _ => s
  | _ => s

/-- after the op: an input refreshes the time of the last input -/
def noteInput (s : Seen) (op : List String) : Seen :=
  match op with
  | ["fsm", "step", a, _] => match parseDec a with
    | some A => { s with specLast := upd s.specLast A (s.clock / 1000) } | none => s
  | _ => s

/-- `fsm stepj` (the clock moves while the call runs): the specification times the event at the reading on entry; only when
    the call found the state expired — the function then calls itself and stamps a later reading — is the stamp the
    implementation reports taken over -/
def noteStepj (s0 s' sNext : Seen) (A : Nat) (tos : List Nat) (clockMs : Nat) : Seen :=
  let now := clockMs / 1000
  match s0.fsm.lookup A, s'.fsm.lookup A with
  | some f, some post =>
    let last := (s0.specLast.lookup A).getD f.lastTs
    let tmo := timeoutOf tos f.state
    let within := tmo = 0 ∨ now - last ≤ tmo
    { sNext with specLast := upd sNext.specLast A (if within then now else post.lastTs) }
  | _, _ => sNext

def preFsm (s : Seen) (A : Nat) : Option Fsm :=
  match s.fsm.lookup A with
  | some f => some { state := f.state, lastTs := (s.specLast.lookup A).getD f.lastTs }
  | none => none

def checkC14 (steps : List Step) : Option (Nat × String) := Id.run do
  if !holdsC14Timeouts X.mappingTimeouts then
    return some (0, s!"state timeouts {X.mappingTimeouts}: idle must have none, active states a non-zero one of at most 30 s")
  let mut s : Seen := {}
  let mut idx := 0
  -- the inactivity deadline as the SPECIFICATION tracks it: armed (now + 30 s) by mapping_reset_inactive_timeout — which the
  -- glue calls for every received frame — and disarmed only by the tick that acts on it; nothing else may disarm it
  let mut inactSpec : List (Nat × Nat) := []
  for st in steps do
    let s0 := noteKind s st.op
    let s' := absorb s0 st.out
    match st.op with
    | ["fsm", "step", a, i] =>
      match parseDec a, parseInt i with
      | some A, some inp =>
        if kindOf s0 A == "map" then
          match preFsm s0 A, s'.fsm.lookup A with
          | some pre, some post =>
            let tmo := timeoutOf X.mappingTimeouts pre.state
            if pre.state < 3 && !holdsC14Step tmo pre post inp (s.clock / 1000) then
              return some (idx, s!"mapping engine: state {pre.state} (last input at {pre.lastTs} s, timeout {tmo}) input {inp} at {s.clock / 1000} s -> state {post.state} last={post.lastTs}; specified: {mapSpec pre.state inp}")
          | _, _ => pure ()
      | _, _ => pure ()
    | ["fsm", "stepj", a, i, _] =>
      match parseDec a, parseInt i with
      | some A, some inp =>
        if kindOf s0 A == "map" then
          match preFsm s0 A, s'.fsm.lookup A with
          | some pre, some post =>
            let tmo := timeoutOf X.mappingTimeouts pre.state
            let now := s.clock / 1000
            let within := tmo = 0 ∨ now - pre.lastTs ≤ tmo
            -- the decision is the one for the time of entry; an event that does not find the state expired stamps that time
            let post' : Fsm := if within then post else { post with lastTs := now }
            if pre.state < 3 && !holdsC14Step tmo pre post' inp now then
              return some (idx, s!"mapping engine (clock moving during the call): state {pre.state} (last input at {pre.lastTs} s, timeout {tmo}) input {inp} entered at {now} s -> state {post.state} last={post.lastTs}; specified: {mapSpec pre.state inp}, stamped {now}")
          | _, _ => pure ()
      | _, _ => pure ()
    | ["tick", m, _, t, _] | ["tickj", m, _, t, _, _, _] =>
      -- `tickj` (the clock moves on right after the tick's first or second reading): the deadline helpers read the clock
      -- themselves, later — the inactivity clause is judged at the clock after the jump
      let nowS := (if st.op.head? == some "tickj" then s'.clock else s.clock) / 1000
      match parseDec m with
      | some M =>
        match s.map.lookup M, s'.fsm.lookup M, s'.map.lookup M with
        | some preM, some postF, some postM =>
          let live := match parseDec t with
            | some T => match s'.tbl.lookup T with | some v => v.live.length | none => 0
            | none => 0
          if !holdsC14Tick preM.inactTs nowS postF postM live then
            return some (idx, s!"tick past the inactivity deadline {preM.inactTs} at {nowS} s left state={postF.state} ctc={postM.ctc} charge={postM.chargeTs} inact={postM.inactTs} live sessions={live}")
          let dl := (inactSpec.lookup M).getD 0
          if !holdsC14Tick dl nowS postF postM live then
            return some (idx, s!"tick at {nowS} s: the last frame armed the inactivity deadline {dl} and nothing but the tick may disarm it, yet the tick left state={postF.state} ctc={postM.ctc} inact={postM.inactTs} live sessions={live} (record says deadline {preM.inactTs})")
          if dl ≠ 0 ∧ nowS ≥ dl then inactSpec := upd inactSpec M 0
        | _, _, _ => pure ()
      | none => pure ()
    | ["map", "resetinact", a] =>
      match parseDec a with
      | some A =>
        match s'.map.lookup A with
        | some postM =>
          if !holdsC14Deadline (s.clock / 1000) postM then
            return some (idx, s!"mapping_reset_inactive_timeout at {s.clock / 1000} s set the deadline to {postM.inactTs}")
          inactSpec := upd inactSpec A (s.clock / 1000 + 30)
        | none => pure ()
      | none => pure ()
    | "map" :: "set" :: a :: _ =>
      match parseDec a with
      | some A => match s'.map.lookup A with
        | some postM => inactSpec := upd inactSpec A postM.inactTs       -- a direct field write of the test script
        | none => pure ()
      | none => pure ()
    | ["fsm", "new", a, "map"] =>
      match parseDec a with
      | some A => inactSpec := upd inactSpec A 0
      | none => pure ()
    | _ => pure ()
    let sN := noteInput s' st.op
    s := match st.op with
      | ["fsm", "stepj", a, _, _] => (match parseDec a with
        | some A => if kindOf s0 A == "map" then noteStepj s0 s' sN A X.mappingTimeouts s.clock else sN
        | none => sN)
      | _ => sN
    idx := idx + 1
  return none

def checkC15 (steps : List Step) : Option (Nat × String) := Id.run do
  let mut s : Seen := {}
  let mut idx := 0
  for st in steps do
    let s0 := noteKind s st.op
    let s' := absorb s0 st.out
    match st.op with
    | ["fsm", "step", a, i] =>
      match parseDec a, parseInt i with
      | some A, some inp =>
        if kindOf s0 A == "sess" then
          match preFsm s0 A, s'.fsm.lookup A with
          | some pre, some post =>
            let tmo := timeoutOf X.sessionTimeouts pre.state
            if pre.state < 4 && !holdsC15Step tmo pre post inp (s.clock / 1000) then
              return some (idx, s!"session automaton: state {pre.state} (last {pre.lastTs} s, timeout {tmo}) event {inp} at {s.clock / 1000} s -> state {post.state}; specified: {sessSpec pre.state inp}")
          | _, _ => pure ()
      | _, _ => pure ()
    | ["fsm", "stepj", a, i, _] =>
      match parseDec a, parseInt i with
      | some A, some inp =>
        if kindOf s0 A == "sess" then
          match preFsm s0 A, s'.fsm.lookup A with
          | some pre, some post =>
            let tmo := timeoutOf X.sessionTimeouts pre.state
            if pre.state < 4 && !holdsC15Step tmo pre post inp (s.clock / 1000) then
              return some (idx, s!"session automaton (clock moving during the call): state {pre.state} (last event at {pre.lastTs} s, timeout {tmo}) event {inp} entered at {s.clock / 1000} s -> state {post.state}; specified: {sessSpec pre.state inp}")
          | _, _ => pure ()
      | _, _ => pure ()
    | _ => pure ()
    let sN := noteInput s' st.op
    s := match st.op with
      | ["fsm", "stepj", a, _, _] => (match parseDec a with
        | some A => if kindOf s0 A == "sess" then noteStepj s0 s' sN A X.sessionTimeouts s.clock else sN
        | none => sN)
      | _ => sN
    idx := idx + 1
  return none

/-! ## C16 -/
def toTView (v : TblView) : TView :=
  { count := v.count, allc := v.allc, empty := v.empty, live := v.live.map (fun p => sessOf p.2) }

def retFound (out : List String) : Bool :=
  out.any (fun l => match tokens l with | ["ret", v] => v != "-1" | _ => false)

def macGen (m g : String) : Option (Mac × Nat) :=
  match parseFixed m 6, parseDec g with
  | some mac, some gen => some (mac, gen)
  | _, _ => none

def checkC16 (steps : List Step) : Option (Nat × String) := Id.run do
  let mut s : Seen := {}
  let mut idx := 0
  for st in steps do
    let s' := absorb s st.out
    let tsel : Option (Nat × TOp) := match st.op with
      | ["tbl", "add", t, m, g, q] => match parseDec t, macGen m g, parseDec q with
        | some T, some (mac, gen), some seq => some (T, TOp.add mac gen seq) | _, _, _ => none
      | ["tbl", "find", t, m, g] => match parseDec t, macGen m g with
        | some T, some (mac, gen) => some (T, TOp.find mac gen) | _, _ => none
      | ["tbl", "remove", t, m, g] => match parseDec t, macGen m g with
        | some T, some (mac, gen) => some (T, TOp.remove mac gen) | _, _ => none
      | ["tbl", "complete", t, m, g] => match parseDec t, macGen m g with
        | some T, some (mac, gen) => some (T, TOp.complete mac gen) | _, _ => none
      | ["tbl", "clear", t] => (parseDec t).map (fun T => (T, TOp.clear))
      | ["tbl", "update", t] => (parseDec t).map (fun T => (T, TOp.other))
      | ["tbl", "dump", t] => (parseDec t).map (fun T => (T, TOp.other))
      | ["tick", "-", _, t, _] => (parseDec t).map (fun T => (T, TOp.expire))
      | _ => none
    match tsel with
    | some (T, op) =>
      match s.tbl.lookup T, s'.tbl.lookup T with
      | some pre, some post =>
        if !holdsC16 (toTView pre) (toTView post) op (retFound st.out) (s.clock / 1000) then
          let descr := if !viewOk (toTView post) then "table view inconsistent (duplicate key, count or flag wrong)" else "operation result differs from the dictionary semantics"
          return some (idx, s!"session table after `{String.intercalate " " st.op}` at {s.clock / 1000} s: {descr}; count={post.count} live={post.live.length} allc={post.allc} empty={post.empty}")
      | _, _ => pure ()
    | none =>
      -- any other op: every table that was printed must still be consistent
      for (_, v) in s'.tbl do
        if !viewOk (toTView v) then
          return some (idx, s!"session table view inconsistent after `{String.intercalate " " st.op}`")
    s := s'
    idx := idx + 1
  return none

/-! ## C11 -/
def checkC11 (steps : List Step) : Option (Nat × String) := Id.run do
  let mut s : Seen := {}
  let mut idx := 0
  let mut poison := 0xA5
  let mut macs : List (Nat × Mac) := []
  for st in steps do
    let s' := absorb s st.out
    match st.op with
    | ["poison", b] => poison := (parseDec b).getD poison
    | "iface" :: i :: attrs =>
      match parseDec i, (fields attrs).lookup "mac" with
      | some I, some m => match parseFixed m 6 with | some mac => macs := upd macs I mac | none => pure ()
      | _, _ => pure ()
    | "set" :: i :: attrs =>
      match parseDec i, (fields attrs).lookup "mac" with
      | some I, some m => match parseFixed m 6 with | some mac => macs := upd macs I mac | none => pure ()
      | _, _ => pure ()
    | ["ev", i, hex, av, tb] | ["ev", i, hex, av, tb, _] =>
      match parseDec i, parseHex hex, parseDec (av.drop 6).toString with
      | some I, some frame, some avail =>
        let our := (macs.lookup I).getD zeroMac
        let f := frame ++ List.replicate (avail - frame.length) poison
        let sessions : List Sess := match parseDec (tb.drop 4).toString with
          | some T => match s.tbl.lookup T with | some v => v.live.map (fun p => sessOf p.2) | none => []
          | none => []
        let ev : Option Int := st.out.findSome? (fun l => match tokens l with | ["event", v] => parseInt v | _ => none)
        match ev with
        | some e =>
          if !holdsC11 f sessions our e then
            return some (idx, s!"classifier returned {e} for opcode {byteAt f 17}, declared stations {unbe (slice f 34 2)}, own address listed: {(stationsHeld f).contains our}, frame length {f.length}")
        | none => pure ()
      | _, _, _ => pure ()
    | _ => pure ()
    s := s'
    idx := idx + 1
  return none

/-! ## C12 -/
def helloTimes (out : List String) : List Nat :=
  out.filterMap (fun l => match tokens l with
    | ["hello", _, t] => parseDec (t.drop 1).toString
    | _ => none)

def checkC12 (steps : List Step) : Option (Nat × String) := Id.run do
  -- C12 speaks about "the session table holds a session that is not yet complete": the table must first of all be a table
  match checkC16 steps with
  | some (i, msg) => return some (i, "C12 (the session table the Hello rule is stated over): " ++ msg)
  | none => pure ()
  -- one responder = one RepeatBand automaton (the tick's second argument) with its own session table and its own
  -- last-transmit time stamp: the rule is stated per responder; several of them may live in one process
  let enums : List String := (steps.filterMap (fun st => match st.op with | ["tick", _, e, _, _] | ["tickj", _, e, _, _, _, _] => some e | _ => none)).eraseDups
  for en in enums do
    let mut s : Seen := {}
    let mut evs : List TickEv := []
    let mut wiredOnly := true
    for st in steps do
      let s' := absorb s st.out
      match st.op with
      | ["tick", _, e, t, port] | ["tickj", _, e, t, port, _, _] =>
        if e == en then
          if port != "wired" then wiredOnly := false
          let inc := match parseDec t with
            | some T => match s'.tbl.lookup T with | some v => v.live.any (fun p => !p.2.complete) | none => false
            | none => false
          evs := evs ++ [{ isTick := true, hellos := helloTimes st.out, incomplete := inc }]
        else evs := evs ++ [{ isTick := false, hellos := [], incomplete := false }]      -- another responder's tick
      | _ => evs := evs ++ [{ isTick := false, hellos := helloTimes st.out, incomplete := false }]
      s := s'
    if wiredOnly && !holdsC12 evs then
      -- locate the first offending prefix
      let mut k := 0
      for _ in evs do
        k := k + 1
        if !holdsC12 (evs.take k) then
          let e := evs[k - 1]!
          return some (k - 1, s!"periodic Hello rule broken (responder with RepeatBand automaton {en}): hellos at {e.hellos} (tick={e.isTick}, live incomplete session={e.incomplete}); all Hello times so far {(evs.take k).flatMap (·.hellos)}")
      return some (0, "periodic Hello rule broken")
  return none

/-! ## Block side: per-interface traces of received frames -/

structure BlkIf where
  cfg : Cfg
  img : List Nat

/-- (op index, interface, observation) for every `rx`, in order -/
def blockTrace (steps : List Step) : List (Nat × Nat × RxObs) := Id.run do
  let mut ifs : List (Nat × BlkIf) := []
  let mut glob : Glob := {}
  let mut acc : Array (Nat × Nat × RxObs) := #[]
  let mut idx := 0
  let mut allocFault := false        -- an allocation-fault schedule is active (from `fault malloc=..` / `fault mallocall` to `fault clear`)
  for st in steps do
    match st.op with
    | "fault" :: rest =>
      if rest == ["clear"] then allocFault := false
      else if rest.any (fun t => t.startsWith "malloc") then allocFault := true
    | "iface" :: i :: attrs =>
      match parseDec i with
      | some I =>
        let r := attrs.foldl (fun (acc : Option (Cfg × Nat)) t => acc.bind (fun (c, b0) => (splitKV t).bind (fun (k, v) =>
          if k == "buf0" then (parseDec v).map (fun n => (c, n)) else (setIfaceAttr c true k v).map (fun c' => (c', b0))))) (some ({ idx := I }, 0))
        match r with
        | some (c, b0) => ifs := upd ifs I { cfg := c, img := List.replicate c.mtu b0 }
        | none => pure ()
      | none => pure ()
    | "set" :: i :: attrs =>
      match parseDec i with
      | some I =>
        match ifs.lookup I with
        | some rec =>
          match attrs.foldl (fun acc t => acc.bind (fun c => (splitKV t).bind (fun (k, v) => setIfaceAttr c false k v))) (some rec.cfg) with
          | some c => ifs := upd ifs I { rec with cfg := c }
          | none => pure ()
        | none => pure ()
      | none => pure ()
    | "glob" :: attrs =>
      match attrs.foldl (fun acc t => acc.bind (fun g => (splitKV t).bind (fun (k, v) => setGlobAttr g k v))) (some glob) with
      | some g => glob := g
      | none => pure ()
    | "rx" :: i :: hex :: rest =>
      match parseDec i, parseHex hex with
      | some I, some frame =>
        match ifs.lookup I with
        | some rec =>
          let img := recvInto rec.img frame (rest == ["zero"])
          ifs := upd ifs I { rec with img := img }
          let seen := if frame.length ≥ 60 then frame else img.take 60     -- nothing shorter than 60 bytes exists on Ethernet
          let fx : List FxObs := st.out.filterMap (fun l => match tokens l with
            | ["sleep", n] => (parseDec n).map FxObs.sleep
            | ["tx", _, h] => (parseHex h).map (FxObs.tx true)
            | ["txfail", _, h] => (parseHex h).map (FxObs.tx false)
            | ["tx", _] => some (FxObs.tx true [])
            | _ => none)
          acc := acc.push (idx, I, { cfg := rec.cfg, glob := glob, frame := seen, fx := fx, live := st.live, bytes := st.bytes, allocFault := allocFault })
        | none => pure ()
      | _, _ => pure ()
    | _ => pure ()
    idx := idx + 1
  return acc.toList

def ifaceIds (t : List (Nat × Nat × RxObs)) : List Nat := (t.map (·.2.1)).eraseDups

def traceOf (t : List (Nat × Nat × RxObs)) (I : Nat) : List (Nat × RxObs) := (t.filter (·.2.1 == I)).map (fun x => (x.1, x.2.2))

/-- first prefix of an interface's trace on which `pred` fails -/
def firstBad (tr : List (Nat × RxObs)) (pred : List RxObs → Bool) : Option Nat := Id.run do
  if pred (tr.map (·.2)) then return none
  let mut k := 0
  for _ in tr do
    k := k + 1
    if !pred ((tr.take k).map (·.2)) then return (tr[k - 1]?).map (·.1)
  return some 0

def ownOf (tr : List (Nat × RxObs)) : List Nat := match tr with | (_, r) :: _ => r.cfg.mac | [] => zeroMac

def describeRx (steps : List Step) (i : Nat) : String :=
  match steps[i]? with
  | some st => s!"`{String.intercalate " " (st.op.take 2)} ..` caused {st.out}"
  | none => ""

def checkBlock (name : String) (pred : List Nat → List RxObs → Bool) (steps : List Step) : Option (Nat × String) := Id.run do
  let t := blockTrace steps
  for I in ifaceIds t do
    let tr := traceOf t I
    match firstBad tr (pred (ownOf tr)) with
    | some i => return some (i, s!"{name} violated on interface {I}: {describeRx steps i}")
    | none => pure ()
  return none

def checkC02 := checkBlock "C02 (well-formed, solicited, bounded transmits)" (fun _ t => holdsC02 t)
def checkC03 := checkBlock "C03 (Hello answering an accepted Discover)" (fun _ t => holdsC03 t)
def checkC04 := checkBlock "C04 (Hello properties = interface attributes)" (fun _ t => holdsC04 t)
def checkC05 := checkBlock "C05 (single mapper arbitration)" holdsC05F
def checkC06 := checkBlock "C06 (Emit execution)" holdsC06
def checkC07 := checkBlock "C07 (every observation reported once)" holdsC07F
def checkC08 := checkBlock "C08 (large property retrieval)" holdsC08

/-- C19: after every frame the ledger holds exactly the retained state the specification predicts -/
def checkC19 (steps : List Step) : Option (Nat × String) := Id.run do
  let t := blockTrace steps
  let ids := ifaceIds t
  let mut sts : List (Nat × SpecSt) := []
  for (i, I, r) in t do
    let s := (sts.lookup I).getD {}
    let s' := specStep r.cfg.mac ((X.seesCap).getD 1000000) r.glob s r.frame (reportedOf r.fx)
    sts := upd sts I s'
    let all := ids.filterMap (fun J => sts.lookup J)
    let expL := expectedLive all
    let expB := expectedBytes X.stateRecBytes X.nodeBytes all
    let capOk := match X.seesCap with | some c => decide (r.live ≤ ids.length * (2 + c)) | none => false
    if !capOk then
      return some (i, s!"C19: {r.live} live allocations after a frame exceeds the fixed bound")
    if r.live != expL || r.bytes != expB then
      return some (i, s!"C19: ledger after the frame shows live={r.live} bytes={r.bytes}, retained state accounts for live={expL} bytes={expB}")
  return none

/-! ## paired traces (C09, recovery clause of C18) -/
def markerIdx (steps : List Step) (name : String) : Option Nat :=
  steps.findIdx? (fun st => st.op == ["note", name])

def checkPaired (label : String) (marker : String) (steps : List Step) : Option (Nat × String) := Id.run do
  match markerIdx steps marker with
  | none => return none
  | some m =>
    let t := (blockTrace steps).filter (fun x => x.1 > m)
    let a := traceOf t 0
    let b := traceOf t 1
    for ((i, ra), (_, rb)) in a.zip b do
      if ra.frame == rb.frame && !holdsPair ra.fx rb.fx then
        return some (i, s!"{label}: after the Reset the responder reacts with {ra.fx.length} port calls {describeRx steps i}, a freshly started one with {rb.fx.length}: {describeRx steps (i + 1)}")
    return none

def checkC09 := checkPaired "C09" "continuation"

def hasAbort (st : Step) : Bool := st.out.any (fun l => l.startsWith "abort")

def checkC01 (steps : List Step) : Option (Nat × String) := Id.run do
  let mut idx := 0
  for st in steps do
    if hasAbort st then
      return some (idx, s!"C01: the process died or a sanitizer aborted during `{String.intercalate " " (st.op.take 2)} ..`: {st.out.filter (fun l => l.startsWith "abort")}")
    idx := idx + 1
  return none

def checkC18 (steps : List Step) : Option (Nat × String) := Id.run do
  let mut idx := 0
  let mut prevLive := 0
  let mut prevBytes := 0
  for st in steps do
    if hasAbort st then
      return some (idx, s!"C18: crash / sanitizer abort under an injected platform fault during `{String.intercalate " " (st.op.take 3)} ..`")
    match st.op with
    | "fsm" :: "new" :: _ | "tbl" :: "new" :: _ =>
      if st.out.any (fun l => (l.startsWith "fsm " || l.startsWith "tbl ") && l.endsWith " null") && (st.live != prevLive || st.bytes != prevBytes) then
        return some (idx, s!"C18: constructor reported failure but left {st.live - prevLive} allocation(s) behind")
    | _ => pure ()
    prevLive := st.live
    prevBytes := st.bytes
    idx := idx + 1
  -- after the faults cleared and a Reset: only the per-interface records remain, and behaviour is that of a fresh responder
  match markerIdx steps "recovered" with
  | some m =>
    match steps[m]? with
    | some st =>
      let ifaces := (ifaceIds ((blockTrace steps).filter (fun x => x.1 < m))).length
      if st.live > ifaces || st.bytes != st.live * X.stateRecBytes then
        return some (m, s!"C18: after the fault cleared and a Reset, {st.live} allocations / {st.bytes} bytes remain for {ifaces} interface(s)")
    | none => pure ()
  | none => pure ()
  checkPaired "C18" "recovered" steps

/-! ## C10 -/
def checkC10 (steps : List Step) : Option (Nat × String) := Id.run do
  let t := blockTrace steps
  let mut idx := 0
  for st in steps do
    match st.op with
    | "relay" :: a :: b :: _ =>
      match parseDec a, parseDec b with
      | some A, some B =>
        -- the Emit that A executed in the previous op
        match (t.filter (fun x => x.1 + 1 == idx && x.2.1 == A)).head? with
        | some (_, _, ra) =>
          if isEmit ra.frame then
            let cap := (ra.cfg.mtu - 34) / 14
            let descs := (emitDescs ra.frame).take cap
            let later := (t.filter (fun x => x.1 > idx && x.2.1 == B)).map (·.2.2)
            -- B's address at the time of the delivery (an interface may have had another address for a while earlier on)
            let bMac := match later.head? with
              | some r => r.cfg.mac
              | none => match (traceOf t B).getLast? with | some (_, r) => r.cfg.mac | none => zeroMac
            let untilReset := later.takeWhile (fun r => !isReset0 r.frame)
            let reported := untilReset.flatMap (fun r => reportedOf r.fx)
            let queried := untilReset.any (fun r => isQuery r.frame)
            let lastMore := match ((untilReset.flatMap (fun r => sends r.fx)).filterMap decodeQueryResp).getLast? with
              | some q => q.more | none => true
            if queried && !lastMore && !holdsC10 ra.cfg.mac bMac descs reported then
              return some (idx, s!"C10: interface {B} never reported the probes interface {A} emitted towards it: reported {reported.length} observations")
        | none => pure ()
      | _, _ => pure ()
    | _ => pure ()
    idx := idx + 1
  return none

end Driver.Check
