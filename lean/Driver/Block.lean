/- Block-side ops of the line protocol: iface / set / glob / rx / linuxrx / ev. -/
import LLTD.Model.Event
import Driver.Parse

open LLTD

namespace Driver

structure IfRec where
  cfg : Cfg
  img : List Nat
  st  : Option St

/-- what recvfrom(sock, buf, MTU) can deliver; MTU 0 (the query succeeds with 0): the whole buffer -/
def rxLimit (r : IfRec) : Nat := if r.cfg.mtu = 0 then r.img.length else r.cfg.mtu

structure BlockSide where
  ifs  : Array (Option IfRec) := Array.replicate 256 none
  glob : Glob := {}
  prevTx : List (Nat × List Nat) := []     -- frames accepted by the port during the previous op (interface, bytes)
  curTx  : List (Nat × List Nat) := []

def BlockSide.rotate (b : BlockSide) : BlockSide := { b with prevTx := b.curTx, curTx := [] }

def sentOf (fx : List Fx) : List (Nat × List Nat) :=
  fx.filterMap (fun x => match x with | .send true i f => some (i, f) | _ => none)

def testBit (m k : Nat) : Bool := (m / k) % 2 == 1

def setIfaceAttr (c : Cfg) (creating : Bool) (k v : String) : Option Cfg :=
  let u32max := 4294967295
  match k with
  | "align" => if creating && (v == "0" || v == "2") then some c else none      -- where the receive buffer starts relative to a word boundary: no matter to the core
  | "mtu" => (parseDec v).bind (fun n => if (n < 64 ∧ !(n = 0 ∧ !creating)) ∨ n > 65535 then none else some { c with mtu := n })   -- after creation: only up to the buffer size (checked by the caller)
  | "mac" => (parseFixed v 6).map (fun m => { c with mac := m })
  | "flags" => (parseDec v).bind (fun n => if n > u32max then none else some { c with flags := n })
  | "iftype" => (parseDec v).bind (fun n => if n > u32max then none else some { c with iftype := n })
  | "ipv4" => (parseFixed v 4).map (fun m => { c with ipv4 := m })
  | "ipv6" => (parseFixed v 16).map (fun m => { c with ipv6 := m })
  | "speed" => (parseDec v).bind (fun n => if n > u32max then none else some { c with speed := n })
  | "wifi" => (parseDec v).bind (fun n => if n > 1 then none else some { c with wifi := n == 1 })
  | "mode" => (parseDec v).bind (fun n => if n > 255 then none else some { c with mode := n })
  | "bssid" => (parseFixed v 6).map (fun m => { c with bssid := m })
  | "ssid" => (parseHex v).bind (fun m => if m.length > 255 then none else some { c with ssid := m })
  | "ssidrep" => if v == "full" then some { c with ssidFull := true } else if v == "copied" then some { c with ssidFull := false } else none
  | "rate" => (parseDec v).bind (fun n => if n > 65535 then none else some { c with rate := n })
  | "rssi" => (parseInt v).bind (fun n => if n < -128 ∨ n > 127 then none else some { c with rssi := n })
  | "getfail" => (parseDec v).bind (fun m => if m > 511 then none else
      some { c with failMtu := testBit m 1, failMac := testBit m 2, failIfType := testBit m 4, failIpv4 := testBit m 8,
                    failIpv6 := testBit m 16, failSpeed := testBit m 32, failBssid := testBit m 64,
                    failRate := testBit m 128, failRssi := testBit m 256 })
  | _ => none

def setGlobAttr (g : Glob) (k v : String) : Option Glob :=
  match k with
  | "host" => (parseHex v).bind (fun m => if m.length > 255 then none else some { g with host := m })
  | "hostrep" => if v == "full" then some { g with hostFull := true } else if v == "copied" then some { g with hostFull := false } else none
  | "hwid" => (parseHex v).bind (fun m => if m.length > 255 then none else some { g with hwid := m })
  | "icon" => if v == "none" then some { g with icon := none } else (parseBlob v).map (fun m => { g with icon := some m })
  | "failsize" => (parseDec v).bind (fun n => if n > 1000000 then none else some g)      -- what a FAILING icon / name query leaves in its size output: a failure all the same
  | "recycle" => if v == "on" || v == "off" then some g else none            -- the allocator hands freed blocks back as their last owner left them: the model has no memory content
  | "memcmprep" => if v == "wide" || v == "byte" then some g else none      -- the magnitude of lltd_port_memcmp's answer: only its sign is specified
  | "sendok" => if v == "len" || v == "zero" then some g else none          -- what a successful transmit returns (never negative): accepted all the same
  | "mtuclobber" => (parseDec v).bind (fun n => if n > 65535 then none else some g)    -- what a FAILING MTU query leaves in its output: the fallback is used all the same
  | "failrc" => (parseInt v).bind (fun i => if i = 0 ∨ i < -1000 ∨ i > 1000 then none else some g)     -- which non-zero code a failing getter returns: failure all the same
  | "emptyrep" => if v == "block" then some { g with emptyBlock := true } else if v == "null" then some { g with emptyBlock := false } else none
  | "fname" => if v == "none" then some { g with fname := none } else (parseBlob v).map (fun m => { g with fname := some m })
  | _ => none

def showFx : Fx → String
  | .sleep ms => s!"sleep {ms}"
  | .send ok i f => (if ok then "tx " else "txfail ") ++ toString i ++ " " ++ toHex f

def showFault : Fault → String
  | .oobRead s => s!"fault oob-read {s}"
  | .oobWrite s => s!"fault oob-write {s}"

/-- the per-interface record as the model holds it (same line as the harness prints through the state-view hook) -/
def showSt (I : Nat) (st : Option St) : String :=
  match st with
  | none => s!"st {I} none"
  | some s =>
    let icon := match s.icon with | some ic => toString ic.length | none => "none"
    let isz := match s.icon with | some ic => ic.length | none => 0
    let head := match s.sees with | o :: _ => toHex (obsWire o) | [] => "-"
    s!"st {I} known={if s.known then 1 else 0} real={toHex s.mapperReal} app={toHex s.mapperApparent} seq={s.seq} gt={s.genTopo} gq={s.genQuick} icon={icon} isz={isz} count={s.count} n={s.sees.length} head={head}"

def showObsAll (I : Nat) (st : Option St) : List String :=
  match st with
  | none => []
  | some s => (List.range s.sees.length).zip s.sees |>.map (fun (k, o) => s!"obs {I} {k} {toHex (obsWire o)}")

/-- returns none for a malformed op -/
def blockStep (w : World) (b : BlockSide) (toks0 : List String)
    (getMap getSess : Nat → Option Fsm) (getTbl : Nat → Option Table) :
    Option (World × BlockSide × List String × List (Nat × Fsm)) :=
  -- `ev … off=2`: where in memory the image starts (2 bytes past a word boundary) does not matter to the classification
  let toks := match toks0 with
    | ["ev", i, hex, av, tb, off] => if off == "off=2" || off == "off=0" then ["ev", i, hex, av, tb] else toks0
    | _ => toks0
  match toks with
  | "iface" :: i :: attrs =>
    (parseIdx i 256).bind fun I =>
    if (b.ifs[I]?.getD none).isSome then none else
    let init : Option (Cfg × Nat) := some ({ idx := I }, 0)
    let r := attrs.foldl (fun acc t => acc.bind (fun (c, buf0) =>
      (splitKV t).bind (fun (k, v) =>
        if k == "buf0" then (parseDec v).bind (fun n => if n > 255 then none else some (c, n))
        else (setIfaceAttr c true k v).map (fun c' => (c', buf0))))) init
    r.map fun (c, buf0) =>
      (w, { b with ifs := b.ifs.set! I (some { cfg := c, img := List.replicate c.mtu buf0, st := none }) }, ["ok"], [])
  | "set" :: i :: attrs =>
    (parseIdx i 256).bind fun I =>
    (b.ifs[I]?.getD none).bind fun rec =>
    let r := attrs.foldl (fun acc t => acc.bind (fun c => (splitKV t).bind (fun (k, v) => setIfaceAttr c false k v))) (some rec.cfg)
    r.bind fun c =>
      -- the interface MTU may change while the daemon runs; the receive buffer keeps the size it was allocated with
      if c.mtu > rec.img.length then none else
      some (w, { b with ifs := b.ifs.set! I (some { rec with cfg := c }) }, ["ok"], [])
  | "glob" :: attrs =>
    let r := attrs.foldl (fun acc t => acc.bind (fun g => (splitKV t).bind (fun (k, v) => setGlobAttr g k v))) (some b.glob)
    r.map fun g => (w, { b with glob := g }, ["ok"], [])
  | "rx" :: i :: hex :: rest =>
    (parseIdx i 256).bind fun I =>
    (b.ifs[I]?.getD none).bind fun rec =>
    (parseHex hex).bind fun frame =>
    if frame.length > rxLimit rec then none else
    let zero := rest == ["zero"]
    let img := recvInto rec.img frame zero
    let (st, w, fx, flt) := parseFrame rec.cfg b.glob w rec.st img
    some (w, { b with ifs := b.ifs.set! I (some { rec with img := img, st := st }), curTx := b.curTx ++ sentOf fx },
          fx.map showFx ++ (match flt with | some f => [showFault f] | none => []) ++ [showSt I st], [])
  | ["dump", i] =>
    (parseIdx i 256).bind fun I =>
    (b.ifs[I]?.getD none).bind fun rec =>
    some (w, b, showObsAll I rec.st ++ [showSt I rec.st], [])
  | ["note", _] => some (w, b, ["ok"], [])
  | "relay" :: a :: bb :: rest =>
    (parseIdx a 256).bind fun A =>
    (parseIdx bb 256).bind fun Bi =>
    if (b.ifs[A]?.getD none).isNone || (b.ifs[Bi]?.getD none).isNone then none else
    let zero := rest == ["zero"]
    let frames := (b.prevTx.filter (fun p => p.1 == A)).map (·.2)
    let r := frames.foldl (fun (acc : World × BlockSide × List String) frame =>
      let (w, b, out) := acc
      match b.ifs[Bi]?.getD none with
      | none => acc
      | some rec =>
        if frame.length > rxLimit rec then acc else
        let img := recvInto rec.img frame zero
        let (st, w, fx, flt) := parseFrame rec.cfg b.glob w rec.st img
        (w, { b with ifs := b.ifs.set! Bi (some { rec with img := img, st := st }), curTx := b.curTx ++ sentOf fx },
         out ++ [s!"deliver {Bi} {toHex frame}"] ++ fx.map showFx ++ (match flt with | some f => [showFault f] | none => []))) (w, b, [])
    some (r.1, r.2.1, r.2.2 ++ [showSt Bi (((r.2.1.ifs[Bi]?.getD none).map (·.st)).getD none)], [])
  | "linuxrx" :: i :: m :: s :: hex :: rest =>
    (parseIdx i 256).bind fun I =>
    (parseIdx m 16).bind fun M =>
    (parseIdx s 16).bind fun S =>
    (b.ifs[I]?.getD none).bind fun rec =>
    (getMap M).bind fun fm =>
    (getSess S).bind fun fs =>
    (parseHex hex).bind fun frame =>
    if frame.length > rxLimit rec then none else
    let zero := rest == ["zero"]
    let img := recvInto rec.img frame zero
    let op : Int := fOpcode img
    let fm' := stepMapping fm op w.nowS
    let fs' := stepSession fs op w.nowS
    let (st, w, fx, flt) := parseFrame rec.cfg b.glob w rec.st img
    some (w, { b with ifs := b.ifs.set! I (some { rec with img := img, st := st }), curTx := b.curTx ++ sentOf fx },
          fx.map showFx ++ (match flt with | some f => [showFault f] | none => []) ++ [showSt I st], [(M, fm'), (S, fs')])
  | ["ev", i, hex, av, tb] =>
    (parseIdx i 256).bind fun I =>
    (b.ifs[I]?.getD none).bind fun rec =>
    (parseHex hex).bind fun frame =>
    if !av.startsWith "avail=" || !tb.startsWith "tbl=" then none else
    (parseDec (av.drop 6).toString).bind fun avail =>
    if avail > 65535 ∨ frame.length > avail then none else
    let tsel : Option (Option Table) :=
      let t := (tb.drop 4).toString
      if t == "-" then some none else (parseIdx t 16).bind (fun T => (getTbl T).map some)
    tsel.map fun tbl =>
      let img := frame ++ List.replicate (avail - frame.length) w.poison
      let o := deriveEvent img tbl (some rec.cfg.mac)
      (w, b, [s!"event {o.event}"], [])
  | _ => none

end Driver
