/-
  Model driver: executes the operation lines of the correspondence protocol on
  the Lean model and prints the same canonical transcript as harness/main.c.
  Imports Model only (no proofs, no Mathlib), so it builds and runs even when a
  proof obligation is broken.
-/
import LLTD.Model.World
import Driver.Parse
import Driver.Block
import Driver.Check
import LLTD.Model.Race
import LLTD.Model.LinuxPort

open LLTD

namespace Driver

inductive FsmObj where
  | map  (f : Fsm) (m : Option MapState)
  | sess (f : Fsm)
  | enm  (f : Fsm) (b : Option Band)

def FsmObj.fsm : FsmObj → Fsm
  | .map f _ => f | .sess f => f | .enm f _ => f

structure DState where
  w      : World := {}
  fsm    : Array (Option FsmObj) := Array.replicate 16 none
  tbl    : Array (Option Table) := Array.replicate 16 none
  lastTx : Array Nat := Array.replicate 16 0
  blk    : BlockSide := {}
  esp    : Option (Fsm × Fsm × Fsm) := none
  nest   : Option (List String) := none     -- op `nest`: the `rx` another interface's thread performs while the next `rx` sleeps

def b2n (b : Bool) : Nat := if b then 1 else 0

def showFsm (a : Nat) (o : Option FsmObj) : String :=
  match o with
  | none => s!"fsm {a} null"
  | some x => s!"fsm {a} state={x.fsm.state} last={x.fsm.lastTs}"

def showMap (a : Nat) (o : Option FsmObj) : String :=
  match o with
  | some (.map _ (some m)) => s!"map {a} ctc={m.ctc} charge={m.chargeTs} inact={m.inactTs}"
  | _ => s!"map {a} null"

def showBand (a : Nat) (o : Option FsmObj) : String :=
  match o with
  | some (.enm _ (some b)) => s!"band {a} Ni={b.ni} r={b.r} begun={b2n b.begun} hello={b.helloTs} block={b.blockTs}"
  | _ => s!"band {a} null"

def showTbl (t : Nat) (o : Option Table) : List String :=
  match o with
  | none => [s!"tbl {t} null"]
  | some tb =>
    let hdr := s!"tbl {t} count={tb.count} allc={b2n tb.allComplete} empty={b2n tb.isEmpty}"
    let rows := (tb.entries.zipIdx).filterMap (fun (e, i) =>
      if e.valid then
        some s!"e {i} {toHex e.mac} gen={e.gen} seq={e.seq} state={e.state} complete={b2n e.complete} last={e.last} created={e.created}"
      else none)
    hdr :: rows

def endLine (w : World) : String := s!"end live={w.live} bytes={w.bytes}"

def bad : List String := ["bad-op"]

/-- parse "malloc=1,2" style fault lists -/
def parseFaultList (s : String) : Option (List Nat) :=
  (s.splitOn ",").foldr (fun t acc => match acc, parseDec t with
    | some l, some k => if k == 0 then none else some (k :: l)
    | _, _ => none) (some [])

def applyFaultTok (w : World) (tok : String) : Option World :=
  if tok == "clear" then some { w with failMalloc := [], failSend := [], failMallocAll := false, failSendAll := false }
  else if tok == "mallocall" then some { w with failMallocAll := true }
  else if tok == "sendall" then some { w with failSendAll := true }
  else match splitKV tok with
    | some ("malloc", v) => (parseFaultList v).map (fun l => { w with failMalloc := w.failMalloc ++ l.map (· + w.mallocCalls) })
    | some ("send", v) => (parseFaultList v).map (fun l => { w with failSend := w.failSend ++ l.map (· + w.sendCalls) })
    | _ => none

def getMapObj (s : DState) (a : Nat) : Option (Fsm × Option MapState) :=
  match s.fsm[a]? with
  | some (some (.map f m)) => some (f, m)
  | _ => none

def getEnumObj (s : DState) (a : Nat) : Option (Fsm × Option Band) :=
  match s.fsm[a]? with
  | some (some (.enm f b)) => some (f, b)
  | _ => none

def getSessObj (s : DState) (a : Nat) : Option Fsm :=
  match s.fsm[a]? with
  | some (some (.sess f)) => some f
  | _ => none

/-- objects for `tick`: "-" = NULL -/
inductive Sel (α : Type) where
  | null | obj (i : Nat) (x : α) | err

def tickOp (s : DState) (m e t port : String) (jump : Option (Nat × Nat)) : DState × List String :=
  let selM : Sel (Fsm × Option MapState) :=
    if m == "-" then .null else match parseIdx m 16 with
      | some M => match getMapObj s M with | some x => .obj M x | none => .err
      | none => .err
  let selE : Sel (Fsm × Option Band) :=
    if e == "-" then .null else match parseIdx e 16 with
      | some E => match getEnumObj s E with | some x => .obj E x | none => .err
      | none => .err
  let selT : Sel Table :=
    if t == "-" then .null else match parseIdx t 16 with
      | some T => match s.tbl[T]?.getD none with | some x => .obj T x | none => .err
      | none => .err
  let pm : Option PortMode := match port with
    | "wired" => some .wired | "nolast" => some .nolast | "none" => some .none | _ => none
  match selM, selE, selT, pm with
  | .err, _, _, _ | _, .err, _, _ | _, _, .err, _ | _, _, _, none => (s, bad)
  | sm, se, st, some pm =>
    let slot := match se with | .obj E _ => E | _ => 0
    let ts : TickState :=
      { mapping := match sm with | .obj _ x => some x | _ => none,
        enum := match se with | .obj _ x => some x | _ => none,
        table := match st with | .obj _ x => some x | _ => none,
        lastTx := s.lastTx[slot]! }
    let nowMs := s.w.clockMs
    let (w', ts', hellos) : World × TickState × List Nat := match jump with
      | none => let r := tick ts pm nowMs; (s.w, r.1, r.2)
      | some (kk, d) =>
        let nowL := nowMs + d
        let r := tickR ts pm nowMs (if kk == 1 then nowL / 1000 else nowMs / 1000) nowL
        ({ s.w with clockMs := nowL }, r.1, r.2)
    let fsm1 := match sm, ts'.mapping with
      | .obj M _, some (f, mo) => s.fsm.set! M (some (.map f mo))
      | _, _ => s.fsm
    let fsm2 := match se, ts'.enum with
      | .obj E _, some (f, bo) => fsm1.set! E (some (.enm f bo))
      | _, _ => fsm1
    let tbl' := match st, ts'.table with
      | .obj T _, some tb => s.tbl.set! T (some tb)
      | _, _ => s.tbl
    let s' := { s with w := w', fsm := fsm2, tbl := tbl', lastTx := s.lastTx.set! slot ts'.lastTx }
    let out := hellos.map (fun h => s!"hello {slot} @{h}")
      ++ (match sm with | .obj M _ => [showFsm M (s'.fsm[M]?.getD none), showMap M (s'.fsm[M]?.getD none)] | _ => [])
      ++ (match se with | .obj E _ => [showFsm E (s'.fsm[E]?.getD none), showBand E (s'.fsm[E]?.getD none), s!"lasttx {slot} {ts'.lastTx}"] | _ => [])
      ++ (match st with | .obj T _ => showTbl T (s'.tbl[T]?.getD none) | _ => [])
    (s', out ++ (match jump with | some _ => [s!"now {w'.clockMs}"] | none => []))

def step (s : DState) (toks : List String) : DState × List String :=
  match toks with
  | ["clock", d] =>
    match parseDec d with
    | some n => let w := { s.w with clockMs := s.w.clockMs + n }; ({ s with w := w }, [s!"now {w.clockMs}"])
    | none => (s, bad)
  | "nest" :: j :: hex :: rest =>
    -- interfaces are isolated: whatever the other thread does during a sleep of this one, the result is that of the
    -- two frames handled one after the other (the loop emits the deferred `rx` after the next one)
    let zero := rest.length == 2 && rest.head? == some "zero"
    let kOk := match rest.getLast? with
      | some k => (match parseDec k with | some n => decide (1 ≤ n ∧ n ≤ 1000) | none => false)
      | none => false
    if !(rest.length == 1 || zero) || !kOk || (parseIdx j 256).isNone || (parseHex hex).isNone then (s, bad)
    else ({ s with nest := some (["rx", j, hex] ++ (if zero then ["zero"] else [])) }, ["ok"])
  | ["poison", b] =>
    match parseDec b with
    | some n => if n > 255 then (s, bad) else ({ s with w := { s.w with poison := n } }, ["ok"])
    | none => (s, bad)
  | "fault" :: rest =>
    if rest.isEmpty then (s, bad) else
    match rest.foldl (fun acc t => acc.bind (fun w => applyFaultTok w t)) (some s.w) with
    | some w => ({ s with w := w }, ["ok"])
    | none => (s, bad)
  | ["fsm", "new", a, kind] =>
    match parseIdx a 16 with
    | none => (s, bad)
    | some A =>
      if (s.fsm[A]?.getD none).isSome then (s, bad) else
      match kind with
      | "map" =>
        let (w, o) := initMapping s.w
        let obj := o.map (fun (f, m) => FsmObj.map f m)
        ({ s with w := w, fsm := s.fsm.set! A obj }, [showFsm A obj, showMap A obj])
      | "sess" =>
        let (w, o) := initSession s.w
        let obj := o.map FsmObj.sess
        ({ s with w := w, fsm := s.fsm.set! A obj }, [showFsm A obj])
      | "enum" =>
        let (w, o) := initEnumeration s.w
        let obj := o.map (fun (f, b) => FsmObj.enm f b)
        ({ s with w := w, fsm := s.fsm.set! A obj }, [showFsm A obj, showBand A obj])
      | _ => (s, bad)
  | ["fsm", "free", a] =>
    match parseIdx a 16 with
    | none => (s, bad)
    | some A =>
      match s.fsm[A]?.getD none with
      | none => (s, bad)
      | some o =>
        let w := match o with
          | .map _ m => (if m.isSome then s.w.free X.sizeofMappingState else s.w).free X.sizeofAutomata
          | .sess _ => s.w.free X.sizeofAutomata
          | .enm _ b => (if b.isSome then s.w.free X.sizeofBandState else s.w).free X.sizeofAutomata
        ({ s with w := w, fsm := s.fsm.set! A none }, ["ok"])
  | ["fsm", "set", a, st, l] =>
    match parseIdx a 16, parseDec st, parseDec l with
    | some A, some st, some l =>
      match s.fsm[A]?.getD none with
      | none => (s, bad)
      | some o =>
        let statesNo := match o with | .map .. => X.mappingStatesNo | .sess .. => X.sessionStatesNo | .enm .. => X.enumerationStatesNo
        if st ≥ statesNo then (s, bad) else
        let f : Fsm := { state := st, lastTs := l }
        let o' := match o with | .map _ m => FsmObj.map f m | .sess _ => .sess f | .enm _ b => .enm f b
        ({ s with fsm := s.fsm.set! A (some o') }, [showFsm A (some o')])
    | _, _, _ => (s, bad)
  | ["fsm", "step", a, inp] =>
    match parseIdx a 16, parseInt inp with
    | some A, some i =>
      if i < -2147483647 ∨ i > 2147483647 then (s, bad) else
      match s.fsm[A]?.getD none with
      | none => (s, bad)
      | some o =>
        let now := s.w.nowS
        let o' := match o with
          | .map f m => FsmObj.map (stepMapping f i now) m
          | .sess f => .sess (stepSession f i now)
          | .enm f b => .enm (stepEnumeration f i now) b
        ({ s with fsm := s.fsm.set! A (some o') }, [showFsm A (some o')])
    | _, _ => (s, bad)
  | ["fsm", "stepj", a, inp, dj] =>
    -- the step with the clock moving on by `dj` ms right after the function's first reading
    match parseIdx a 16, parseInt inp, parseDec dj with
    | some A, some i, some d =>
      if i < -2147483647 ∨ i > 2147483647 ∨ d > 100000000 then (s, bad) else
      match s.fsm[A]?.getD none with
      | none => (s, bad)
      | some o =>
        let now1 := s.w.nowS
        let w := { s.w with clockMs := s.w.clockMs + d }
        let now2 := w.nowS
        let o' := match o with
          | .map f m => FsmObj.map (stepMappingR f i now1 now2) m
          | .sess f => .sess (stepSessionR f i now1 now2)
          | .enm f b => .enm (stepEnumeration f i now1) b
        ({ s with w := w, fsm := s.fsm.set! A (some o') }, [showFsm A (some o'), s!"now {w.clockMs}"])
    | _, _, _ => (s, bad)
  | ["fsm", "show", a] =>
    match parseIdx a 16 with
    | some A => (s, [showFsm A (s.fsm[A]?.getD none)])
    | none => (s, bad)
  | "map" :: sub :: a :: rest =>
    match parseIdx a 16 with
    | none => (s, bad)
    | some A =>
      match getMapObj s A with
      | none => (s, bad)
      | some (f, mo) =>
        let now := s.w.nowS
        let fin (mo' : Option MapState) (pre : List String) : DState × List String :=
          let o := some (FsmObj.map f mo')
          ({ s with fsm := s.fsm.set! A o }, pre ++ [showMap A o])
        match sub, rest with
        | "charge", [] => fin (mo.map (fun m => mapOnCharge m now)) []
        | "resetcharge", [] => fin (mo.map mapResetCharge) []
        | "checkcharge", [] =>
          match mo with
          | some m => let (m', r) := mapCheckCharge m now; fin (some m') [s!"ret {b2n r}"]
          | none => fin none ["ret 0"]
        | "checkinact", [] =>
          match mo with
          | some m => fin (some m) [s!"ret {b2n (mapCheckInactive m now)}"]
          | none => fin none ["ret 0"]
        | "resetinact", [] => fin (mo.map (fun m => mapResetInactive m now)) []
        | "set", [c, x, y] =>
          match mo, parseDec c, parseDec x, parseDec y with
          | some _, some c, some x, some y => if c > 255 then (s, bad) else fin (some { ctc := c, chargeTs := x, inactTs := y }) []
          | _, _, _, _ => (s, bad)
        | "show", [] => fin mo []
        | _, _ => (s, bad)
  | "band" :: sub :: a :: rest =>
    match parseIdx a 16 with
    | none => (s, bad)
    | some A =>
      match getEnumObj s A with
      | none => (s, bad)
      | some (f, bo) =>
        let now := s.w.clockMs
        let fin (bo' : Option Band) (pre : List String) : DState × List String :=
          let o := some (FsmObj.enm f bo')
          ({ s with fsm := s.fsm.set! A o }, pre ++ [showBand A o])
        match sub, rest with
        | "init", [] => fin (bo.map (fun b => bandInitStats b now)) []
        | "update", [] => fin (bo.map (fun b => bandUpdateStats b now)) []
        | "choose", [] =>
          match bo with
          | some b => let b' := bandChooseHelloTime b now; fin (some b') [s!"ret {b'.helloTs}"]
          | none => fin none ["ret 0"]
        | "dohello", [] => fin (bo.map (fun b => bandDoHello b now)) []
        | "heard", [] => fin (bo.map bandOnHelloReceived) []
        | "begun", [] => fin (bo.map (fun b => { b with begun := true })) []
        | "set", [ni, r, bg, h, bl] =>
          match bo, parseDec ni, parseDec r, parseDec bg, parseDec h, parseDec bl with
          | some _, some ni, some r, some bg, some h, some bl =>
            if ni ≥ u32 ∨ r ≥ u32 ∨ bg > 1 then (s, bad)
            else fin (some { ni := ni, r := r, begun := bg == 1, helloTs := h, blockTs := bl }) []
          | _, _, _, _, _, _ => (s, bad)
        | "show", [] => fin bo []
        | _, _ => (s, bad)
  | ["tbl", "new", t] =>
    match parseIdx t 16 with
    | none => (s, bad)
    | some T =>
      if (s.tbl[T]?.getD none).isSome then (s, bad) else
      let (w, o) := tableCreate s.w
      ({ s with w := w, tbl := s.tbl.set! T o }, showTbl T o)
  | "tbl" :: sub :: t :: rest =>
    match parseIdx t 16 with
    | none => (s, bad)
    | some T =>
      match s.tbl[T]?.getD none with
      | none => (s, bad)
      | some tb =>
        let now := s.w.nowS
        let fin (tb' : Table) (pre : List String) : DState × List String :=
          ({ s with tbl := s.tbl.set! T (some tb') }, pre ++ showTbl T (some tb'))
        let macGen (m g : String) : Option (Mac × Nat) :=
          match parseFixed m 6, parseDec g with
          | some mac, some gen => if gen > 65535 then none else some (mac, gen)
          | _, _ => none
        let showRet (r : Option Nat) : String := match r with | some i => s!"ret {i}" | none => "ret -1"
        match sub, rest with
        | "add", [m, g, q] =>
          match macGen m g, parseDec q with
          | some (mac, gen), some seq =>
            if seq > 65535 then (s, bad) else
            let (tb', r) := tb.add mac gen seq now
            fin tb' [showRet r]
          | _, _ => (s, bad)
        | "readd", [m, g, g2, q] =>
          -- the "move the mapper to its new generation" idiom of a glue: remove the session found, add it again under the new
          -- generation — the implementation passes the address bytes of the entry it has just removed as the key
          match macGen m g, macGen m g2, parseDec q with
          | some (mac, gen), some (_, gen2), some seq =>
            if seq > 65535 then (s, bad) else
            match tb.find mac gen with
            | none => fin tb ["ret -1"]
            | some _ =>
              let (tb', r) := (tb.remove mac gen).add mac gen2 seq now
              fin tb' [showRet r]
          | _, _, _ => (s, bad)
        | "find", [m, g] =>
          match macGen m g with
          | some (mac, gen) => fin tb [showRet (tb.find mac gen)]
          | none => (s, bad)
        | "remove", [m, g] =>
          match macGen m g with
          | some (mac, gen) => fin (tb.remove mac gen) []
          | none => (s, bad)
        | "complete", [m, g] =>
          match macGen m g with
          | some (mac, gen) => fin (tb.markComplete mac gen) []
          | none => (s, bad)
        | "touch", [m, g, st] =>
          match macGen m g, parseDec st with
          | some (mac, gen), some st => if st > 255 then (s, bad) else fin (tb.touch mac gen st now) []
          | _, _ => (s, bad)
        | "clear", [] => fin tb.clear []
        | "update", [] => fin tb.updateStatus []
        | "dump", [] => fin tb []
        | _, _ => (s, bad)
  | "tickj" :: m :: e :: t :: port :: k :: dj :: [] =>
    -- the tick with the clock moving on by `dj` ms right after its k-th reading (k = 1: after the millisecond reading taken on
    -- entry; k = 2: after the seconds reading that follows it)
    match parseDec k, parseDec dj with
    | some kk, some d =>
      if (kk != 1 && kk != 2) || d > 100000000 then (s, bad) else
      tickOp s m e t port (some (kk, d))
    | _, _ => (s, bad)
  | ["tick", m, e, t, port] => tickOp s m e t port none
  | ["espinit"] =>
    if s.esp.isSome then (s, bad) else
    -- lltd_esp32_init: mapping, session, enumeration constructors in this order
    let (w1, m) := initMapping s.w
    let (w2, se) := initSession w1
    let (w3, en) := initEnumeration w2
    let sh (o : Option Nat) : String := match o with | some n => toString n | none => "-1"
    let line := s!"esp map={sh (m.map (·.1.state))} sess={sh (se.map (·.state))} enum={sh (en.map (·.1.state))}"
    match m, se, en with
    | some (fm, _), some fs, some (fe, _) => ({ s with w := w3, esp := some (fm, fs, fe) }, [line])
    | _, _, _ => ({ s with w := w3, esp := none }, [line])
  | ["esp", hex] =>
    match s.esp, parseHex hex with
    | some (fm, fs, fe), some frame =>
      let (fm', fs', fe') := espHandleFrame fm fs fe frame s.w.nowS
      ({ s with esp := some (fm', fs', fe') },
       [s!"esp map={fm'.state}/{fm'.lastTs} sess={fs'.state}/{fs'.lastTs} enum={fe'.state}/{fe'.lastTs}"])
    | _, _ => (s, bad)
  | _ =>
    match blockStep s.w s.blk toks (fun i => (getMapObj s i).map (·.1)) (fun i => getSessObj s i) (fun t => s.tbl[t]?.getD none) with
    | some (w, blk, out, fsmUpd) =>
      let fsm' := fsmUpd.foldl (fun (arr : Array (Option FsmObj)) (u : Nat × Fsm) =>
        match arr[u.1]?.getD none with
        | some (.map _ m) => arr.set! u.1 (some (.map u.2 m))
        | some (.sess _) => arr.set! u.1 (some (.sess u.2))
        | _ => arr) s.fsm
      ({ s with w := w, blk := blk, fsm := fsm' }, out ++ fsmUpd.map (fun u => showFsm u.1 (fsm'[u.1]?.getD none)))
    | none => (s, bad)

partial def loop (h : IO.FS.Stream) (out : IO.FS.Stream) (s : DState) : IO DState := do
  let line ← h.getLine
  if line.isEmpty then return s
  let l := (line.dropEndWhile (fun c => c == '\n' || c == '\r')).toString
  if l.startsWith "%%case" then
    out.putStrLn l
    loop h out {}
  else if l.isEmpty || l.startsWith "%" then loop h out s
  else
    out.putStrLn ("# " ++ l)
    let (s', lines) := step s (tokens l)
    for x in lines do out.putStrLn x
    out.putStrLn (endLine s'.w)
    let s' := { s' with blk := s'.blk.rotate }
    match s'.nest, (tokens l).head? with
    | some toks, some "rx" =>
      out.putStrLn ("# " ++ " ".intercalate toks)
      let (s2, lines2) := step { s' with nest := none } toks
      for x in lines2 do out.putStrLn x
      out.putStrLn (endLine s2.w)
      loop h out { s2 with blk := s2.blk.rotate }
    | _, _ => loop h out s'

end Driver

/-- split a transcript into cases of steps -/
partial def readCases (h : IO.FS.Stream) : IO (Array (String × Array Driver.Check.Step)) := do
  let mut cases : Array (String × Array Driver.Check.Step) := #[]
  let mut curId := ""
  let mut steps : Array Driver.Check.Step := #[]
  let mut curOp : Option (List String) := none
  let mut curOut : Array String := #[]
  let mut started := false
  let mut endLive := 0
  let mut endBytes := 0
  repeat
    let line ← h.getLine
    if line.isEmpty then break
    let l := (line.dropEndWhile (fun c => c == '\n' || c == '\r')).toString
    if l.startsWith "%%case" then
      if let some op := curOp then steps := steps.push { op := op, out := curOut.toList }
      if started then cases := cases.push (curId, steps)
      curId := (l.drop 7).toString
      steps := #[]; curOp := none; curOut := #[]; started := true
    else if l.startsWith "# " then
      if let some op := curOp then steps := steps.push { op := op, out := curOut.toList }
      curOp := some (Driver.tokens (l.drop 2).toString); curOut := #[]; started := true
    else if l.startsWith "end live=" then
      let fs := Driver.Check.fields (Driver.tokens l)
      endLive := (Driver.Check.getNat fs "live").getD 0
      endBytes := (Driver.Check.getNat fs "bytes").getD 0
      if let some op := curOp then steps := steps.push { op := op, out := curOut.toList, live := endLive, bytes := endBytes }
      curOp := none; curOut := #[]
    else if l.startsWith "stats " then
      pure ()
    else if l.startsWith "abort" && curOp.isNone then
      steps := steps.push { op := ["<process died>"], out := [l] }
    else
      curOut := curOut.push l
  if let some op := curOp then steps := steps.push { op := op, out := curOut.toList }
  if started then cases := cases.push (curId, steps)
  return cases

def checkMain (prop : String) (path : String) : IO Unit := do
  let h ← IO.FS.Handle.mk path IO.FS.Mode.read
  let cases ← readCases (IO.FS.Stream.ofHandle h)
  let stdout ← IO.getStdout
  let f : Option (List Driver.Check.Step → Option (Nat × String)) := match prop with
    | "C11" => some Driver.Check.checkC11
    | "C12" => some Driver.Check.checkC12
    | "C13" => some Driver.Check.checkC13
    | "C14" => some Driver.Check.checkC14
    | "C15" => some Driver.Check.checkC15
    | "C16" => some Driver.Check.checkC16
    | "C02" => some Driver.Check.checkC02
    | "C03" => some Driver.Check.checkC03
    | "C04" => some Driver.Check.checkC04
    | "C05" => some Driver.Check.checkC05
    | "C06" => some Driver.Check.checkC06
    | "C07" => some Driver.Check.checkC07
    | "C08" => some Driver.Check.checkC08
    | "C19" => some Driver.Check.checkC19
    | "C09" => some Driver.Check.checkC09
    | "C10" => some Driver.Check.checkC10
    | "C18" => some Driver.Check.checkC18
    | "C01" => some Driver.Check.checkC01
    | _ => none
  match f with
  | none => stdout.putStrLn s!"no-predicate {prop}"
  | some f =>
    for (cid, steps) in cases do
      match f steps.toList with
      | none => stdout.putStrLn s!"case {cid} OK"
      | some (i, msg) => stdout.putStrLn s!"case {cid} FAIL {i} {msg}"
  stdout.flush

def main (args : List String) : IO Unit := do
  if let ["check", prop, path] := args then
    checkMain prop path
    return
  if let ["linuxrec", path] := args then
    -- model of the Linux port getters on records: one record per line
    let txt ← IO.FS.readFile path
    for line in txt.splitOn "\n" do
      match Driver.tokens line with
      | m :: a :: b :: c :: d :: e :: _rest =>      -- a 7th field (content of the rest of the record: class, indices, session fields) is none of the property's business
        match Driver.parseFixed m 6, a.toNat?, b.toNat?, c.toNat?, d.toNat?, e.toNat? with
        | some mac, some mtu, some ift, some spd, some med, some fl =>
          let s := LLTD.LinuxPort.supplied { mac := mac, mtu := mtu, ifType := ift, linkSpeed := spd, mediumType := med, flags := fl }
          IO.println s!"rec mac={Driver.toHex s.mac} mtu={s.mtu} iftype={s.ifType} speed={s.speed100} flags={s.flags} rc=0000"
        | _, _, _, _, _, _ => IO.println "bad-rec"
      | _ => pure ()
    return
  if let ["race", sched] := args then
    -- model prediction for one schedule of the two-thread insertion: letters A/B = threads 0/1
    let s := sched.toList.map (fun c => if c == 'A' then 0 else 1)
    IO.println s!"lost={LLTD.Race.lost s}"
    return
  let stdin ← IO.getStdin
  let stdout ← IO.getStdout
  let input ← match args with
    | [p] => do
      let h ← IO.FS.Handle.mk p IO.FS.Mode.read
      pure (IO.FS.Stream.ofHandle h)
    | _ => pure stdin
  let s ← Driver.loop input stdout {}
  stdout.putStrLn s!"stats mallocs={s.w.mallocCalls}"
  stdout.flush
