/- Parsing / printing helpers of the line protocol (mirrors harness/main.c). -/
namespace Driver

def hexDigit (c : Char) : Option Nat :=
  if '0' ≤ c ∧ c ≤ '9' then some (c.toNat - '0'.toNat)
  else if 'a' ≤ c ∧ c ≤ 'f' then some (c.toNat - 'a'.toNat + 10)
  else if 'A' ≤ c ∧ c ≤ 'F' then some (c.toNat - 'A'.toNat + 10)
  else none

partial def hexGo : List Char → List Nat → Option (List Nat)
  | [], acc => some acc.reverse
  | [_], _ => none
  | a :: b :: rest, acc =>
    match hexDigit a, hexDigit b with
    | some x, some y => hexGo rest ((x * 16 + y) :: acc)
    | _, _ => none

/-- hex string ("-" = empty) to bytes -/
def parseHex (s : String) : Option (List Nat) :=
  if s == "-" then some [] else hexGo s.toList []

def genBlob (size seed : Nat) : List Nat :=
  (List.range size).map (fun i => (i * 131 + seed * 17 + i / 256) % 256)

def parseDec (s : String) : Option Nat :=
  if s.isEmpty then none
  else if s.startsWith "0x" || s.startsWith "0X" then
    let ds := (s.drop 2).toString.toList
    if ds.isEmpty then none else
    ds.foldl (fun acc c => match acc, hexDigit c with
      | some a, some d => some (a * 16 + d)
      | _, _ => none) (some 0)
  else s.toNat?

/-- "gen:SIZE:SEED" or hex -/
def parseBlob (s : String) : Option (List Nat) :=
  if s.startsWith "gen:" then
    match ((s.drop 4).toString.splitOn ":") with
    | [a, b] => match a.toNat?, b.toNat? with
      | some size, some seed => if size > 1048576 then none else some (genBlob size seed)
      | _, _ => none
    | _ => none
  else parseHex s

def parseFixed (s : String) (n : Nat) : Option (List Nat) :=
  match parseHex s with
  | some bs => if bs.length == n then some bs else none
  | none => none

def parseInt (s : String) : Option Int :=
  if s.startsWith "-" then (parseDec (s.drop 1).toString).map (fun n => - (Int.ofNat n))
  else (parseDec s).map Int.ofNat

def parseIdx (s : String) (max : Nat) : Option Nat :=
  match parseDec s with
  | some v => if v < max then some v else none
  | none => none

def hexChars : Array Char := #['0','1','2','3','4','5','6','7','8','9','a','b','c','d','e','f']

def toHex (bs : List Nat) : String :=
  String.ofList (bs.foldr (fun b acc => hexChars[(b / 16) % 16]! :: hexChars[b % 16]! :: acc) [])

def splitKV (s : String) : Option (String × String) :=
  match s.splitOn "=" with
  | k :: v :: rest => some (k, String.intercalate "=" (v :: rest))
  | _ => none

def tokens (line : String) : List String :=
  (line.splitOn " ").filter (fun t => !t.isEmpty)

end Driver
